"""C09 bounded stand-in: every grouping operator of petl, run for real, against a reference grouping built with plain
lists (one group per distinct key, ascending under the C04 ordering, rows in input order)."""
import functools, itertools, operator, random
from collections import OrderedDict
import petl as etl
from petl.transform.reductions import Conflict
from . import common
from .common import group, expect, Fail

_g = dict(common.GROUPS)                 # importing c04 registers C04's groups; keep only our own
from .c04 import ref_lt, ref_eq          # noqa: E402
common.GROUPS.clear()
common.GROUPS.update(_g)

RULE = ('tables with header (k, j, i, w): key cells k, j from {None, 0, 1, "a"} (every equality / order / type pattern: '
        'duplicate keys, repeated None keys, mixed types, compound keys; header-only and single-row tables included), '
        'i = input position (so order inside a group is observable), w = 10**i (so a group sum identifies exactly the '
        'rows that went into it) x key forms (field name, index, 1-tuple, compound in both orders, list; None and the '
        'zero-field header for the key-less forms; a callable for rowgroupby / presorted aggregate) x aggregation spec '
        'forms (callable, value field / fields, OrderedDict, dict, list / tuple of (name, field, fn), None + item '
        'assignment) x strategy (default, buffersize 1..n+1, presorted on a key-sorted input; a source that fails once '
        'part-way and is iterated again).  One case = one (table, key, strategy, ...) tuple on which all the operators '
        'of the group are run and compared with the reference; distinct = distinct tuples per group')
BOUND = {'quick': 'all tables <= 3 rows over the 16 (k, j) pairs x keys k and (k, j); the other key forms on all tables '
                  '<= 2 rows; strategies: all k-column patterns <= 3 rows (plus 4 rows over {None, 0, "a"} for the '
                  'cheap operators) x buffersize 1..n+1 / presorted, plus seeded samples of compound-key cases',
         'thorough': 'all tables <= 4 rows over the 16 (k, j) pairs x keys k and (k, j), other key forms on all tables '
                     '<= 3 rows; strategies: all k-column patterns <= 4 rows x every buffersize / presorted, plus '
                     'larger seeded samples of compound-key cases'}

K4 = (None, 0, 1, 'a')
HDR = ('k', 'j', 'i', 'w')
PAIRS = list(itertools.product(K4, repeat=2))


def mk(body):
    """table literal from a sequence of (k, j) pairs"""
    return [HDR] + [(k, j, i, 10 ** i) for i, (k, j) in enumerate(body)]


# ------------------------------------------------------------------------------------------------ reference side

def _kidx(hdr, key):
    if isinstance(key, (list, tuple)):
        return tuple(k if isinstance(k, int) else list(hdr).index(k) for k in key)
    return (key if isinstance(key, int) else list(hdr).index(key),)


def _kfields(hdr, key):
    return tuple(hdr[i] for i in _kidx(hdr, key))


def _cmpkey(a, b):
    return -1 if ref_lt(a, b) else (1 if ref_lt(b, a) else 0)


def ref_groups(hdr, rows, key):
    """[(key tuple, [rows with that key, in input order])], ascending key order"""
    idx = _kidx(hdr, key)

    def kf(r):
        return tuple(r[i] for i in idx)
    keys = []
    for r in rows:
        if not any(ref_eq(kf(r), k) for k in keys):
            keys.append(kf(r))
    keys.sort(key=functools.cmp_to_key(_cmpkey))
    return [(k, [r for r in rows if ref_eq(kf(r), k)]) for k in keys]


def ref_sorted(hdr, rows, key):
    return [r for _, g in ref_groups(hdr, rows, key) for r in g]


def kout(kv):
    """how a key is presented to a callback: the bare value for a single field, a tuple for a compound key"""
    return kv[0] if len(kv) == 1 else tuple(kv)


def norm(x):
    if isinstance(x, Conflict):
        return ('Conflict', frozenset(x))
    if isinstance(x, tuple):
        return tuple(norm(y) for y in x)
    if isinstance(x, list):
        return [norm(y) for y in x]
    return x


def same(a, b):
    return repr(norm(a)) == repr(norm(b)) if not _has_conflict(a) else norm(a) == norm(b)


def _has_conflict(x):
    if isinstance(x, Conflict):
        return True
    if isinstance(x, (list, tuple)):
        return any(_has_conflict(y) for y in x)
    return False


def _ik(key):
    return any(isinstance(k, int) for k in (key if isinstance(key, (list, tuple)) else (key,)))


def _sub(op, cls, strat):
    return '%s/presorted' % op if strat == 'presorted' else '%s/%s' % (op, cls)


def _exp(cond, op, cls, strat, expected=None, observed=None):
    if not cond:
        raise Fail(_sub(op, cls, strat), expected, observed)


def _kw(strat):
    if strat is None:
        return {}
    if strat == 'presorted':
        return {'presorted': True}
    return {'buffersize': strat}


def _src(tbl, key, strat):
    hdr, rows = tuple(tbl[0]), [tuple(r) for r in tbl[1:]]
    if strat == 'presorted' and key is not None:
        return hdr, rows, [hdr] + ref_sorted(hdr, rows, key)
    return hdr, rows, [hdr] + rows


def _k1(key):
    return isinstance(key, (list, tuple)) and len(key) == 1


def _run(op, fn, strat, n, key1=False):
    try:
        out = [tuple(r) for r in fn()]
    except Exception as e:
        if key1:
            # a key given as a one-field tuple / list: its own class, whatever the strategy
            raise Fail('%s/one-field-key-tuple/%s' % (op, type(e).__name__), 'a table', repr(e))
        sub = 'exception/header-only/' if n == 0 else 'exception/'
        raise Fail(_sub(op, sub + type(e).__name__, strat), 'a table', repr(e))
    _exp(len(out) >= 1, op, 'no-header', strat, 'header row', out)
    return out[0], out[1:]


def _grouped(op, out, exp_hdr, exp_rows, nkey, strat, intkey=False):
    """one output row per group: header, then the key sequence (one per distinct key, ascending), then the values"""
    hdr, rows = out
    # (how a key given by index is named in the output header is not part of the property)
    _exp(tuple(hdr) == tuple(exp_hdr) or (intkey and tuple(hdr[nkey:]) == tuple(exp_hdr[nkey:])
                                          and len(hdr) == len(exp_hdr)), op, 'header', strat, tuple(exp_hdr), hdr)
    _exp(all(len(r) >= nkey for r in rows), op, 'row-shape', strat, exp_rows, rows)
    gk, ek = [tuple(r[:nkey]) for r in rows], [tuple(r[:nkey]) for r in exp_rows]
    _exp(same(gk, ek), op, 'groups', strat, ek, gk)
    _exp(same(rows, exp_rows), op, 'values', strat, exp_rows, rows)


# ------------------------------------------------------------------------------------------------ input enumeration

KEYS_MAIN = ['k', ('k', 'j')]
KEYS_MORE = [1, ('k',), ('j', 'k'), ['k', 'j'], 0]


def _bodies(maxrows, cells=PAIRS):
    for n in range(maxrows + 1):
        for body in itertools.product(cells, repeat=n):
            yield body


def _kcolumn_bodies(maxrows, cells=K4):
    """all patterns of the k column; j runs through the alphabet so that it has duplicates and None as well"""
    for n in range(maxrows + 1):
        for ks in itertools.product(cells, repeat=n):
            yield tuple((k, K4[(i + (k == 0)) % 3]) for i, k in enumerate(ks))


def _strats(n):
    return list(range(1, n + 2)) + ['presorted']


def _keyed_inputs(tier, seed, nsample=300, keys_main=KEYS_MAIN, keys_more=KEYS_MORE, wide4=False, salt=0,
                  j_matters=False):
    """j_matters: the operator looks at the j cells even when the key is k alone (else the k column pattern decides)"""
    thorough = tier == 'thorough'
    big, small = (4, 3) if thorough else (3, 2)
    for body in _bodies(big):
        for key in (keys_main if j_matters else keys_main[1:]):
            yield (mk(body), key, None)
    if not j_matters:
        for body in _kcolumn_bodies(big + 1):
            yield (mk(body), keys_main[0], None)
    for body in _bodies(small):
        for key in keys_more:
            yield (mk(body), key, None)
    # strategies: every pattern of the key column x every chunking
    for body in _kcolumn_bodies(4 if thorough else 3):
        for s in _strats(len(body)):
            yield (mk(body), keys_main[0], s)
    if wide4 and not thorough:
        for body in _kcolumn_bodies(4, (None, 0, 'a')):
            if len(body) == 4:
                for s in _strats(4):
                    yield (mk(body), keys_main[0], s)
    rnd = random.Random(seed * 1000 + salt)
    keys = keys_main + keys_more
    for _ in range(nsample * (20 if thorough else 1)):
        n = rnd.randint(2, 4 if thorough else 3)
        body = tuple(rnd.choice(PAIRS) for _ in range(n))
        yield (mk(body), rnd.choice(keys), rnd.choice(_strats(n)))


# ------------------------------------------------------------------------------------------------ aggregate, simple

@group('aggregate', lambda tier, seed: _keyed_inputs(tier, seed, 300, wide4=True, salt=1))
def aggregate(inp):
    tbl, key, strat = inp
    hdr, rows, src = _src(tbl, key, strat)
    n, kw = len(rows), _kw(strat)
    G = ref_groups(hdr, rows, key)
    kf = _kfields(hdr, key)
    nk = len(kf)
    ii, wi = hdr.index('i'), hdr.index('w')

    out = _run('aggregate-len', lambda: etl.aggregate(src, key, len, **kw), strat, n)
    _exp(all(len(r) == nk + 1 for r in out[1]), 'aggregate-len', 'row-shape', strat, nk + 1, out[1])
    _exp(sum(r[-1] for r in out[1]) == n, 'aggregate-len', 'count-sum', strat, n, out[1])
    _grouped('aggregate-len', out, kf + ('value',), [k + (len(g),) for k, g in G], nk, strat, _ik(key))

    out = _run('aggregate-sum', lambda: etl.aggregate(src, key, sum, 'w', **kw), strat, n)
    _exp(all(len(r) == nk + 1 for r in out[1]), 'aggregate-sum', 'row-shape', strat, nk + 1, out[1])
    _exp(sum(r[-1] for r in out[1]) == sum(r[wi] for r in rows), 'aggregate-sum', 'sum-total', strat,
         sum(r[wi] for r in rows), out[1])
    _grouped('aggregate-sum', out, kf + ('value',), [k + (sum(r[wi] for r in g),) for k, g in G], nk, strat, _ik(key))

    out = _run('aggregate-list', lambda: etl.aggregate(src, key, list, 'i', field='is', **kw), strat, n)
    _grouped('aggregate-list', out, kf + ('is',), [k + ([r[ii] for r in g],) for k, g in G], nk, strat, _ik(key))

    if strat is None or isinstance(strat, str):
        # counting the values of a field counts None cells as well
        out = _run('aggregate-len-value', lambda: etl.aggregate(src, key, len, 'j', **kw), strat, n)
        _grouped('aggregate-len-value', out, kf + ('value',), [k + (len(g),) for k, g in G], nk, strat, _ik(key))
        # value selected by INDEX 0: a falsy but valid selection (the first column), not "no value"
        out = _run('aggregate-value-index0', lambda: etl.aggregate(src, key, list, 0, **kw), strat, n)
        _grouped('aggregate-value-index0', out, kf + ('value',), [k + ([r[0] for r in g],) for k, g in G], nk, strat, _ik(key))
        out = _run('aggregate-rows', lambda: etl.aggregate(src, key, list, **kw), strat, n)
        _grouped('aggregate-rows', out, kf + ('value',), [k + (list(g),) for k, g in G], nk, strat, _ik(key))
        out = _run('aggregate-fields', lambda: etl.aggregate(src, key=key, aggregation=list, value=('i', 'w'), **kw),
                   strat, n)
        _grouped('aggregate-fields', out, kf + ('value',), [k + ([(r[ii], r[wi]) for r in g],) for k, g in G], nk,
                 strat, _ik(key))


# ------------------------------------------------------------------------------------------------ aggregate, multi

SPEC_FORMS = ('odict', 'dict', 'list', 'tuple', 'setitem')


def _multi(src, key, form, kw, minmax=True):
    items = [('n', len), ('s', ('w', sum)), ('li', 'i'), ('liw', (('i', 'w'), list)), ('rows', list)]
    if minmax:
        items += [('mn', ('i', min)), ('mx', ('i', max))]
    if form == 'odict':
        return etl.aggregate(src, key, OrderedDict(items), **kw)
    if form == 'dict':
        return etl.aggregate(src, key, dict(items), **kw)
    if form in ('list', 'tuple'):
        # (name, fn) / (name, field) / (name, field, fn)
        spec = [(nm,) + (tuple(sp) if isinstance(sp, tuple) else (sp,)) for nm, sp in items]
        if form == 'tuple':
            spec = tuple(list(t) for t in spec)
        return etl.aggregate(src, key, spec, **kw)
    view = etl.aggregate(src, key, **kw)
    for nm, sp in items:
        view[nm] = sp
    return view


def _multi_expected(g, hdr, minmax=True):
    ii, wi = hdr.index('i'), hdr.index('w')
    row = (len(g), sum(r[wi] for r in g), [r[ii] for r in g], [(r[ii], r[wi]) for r in g], list(g))
    if minmax:
        row += (min(r[ii] for r in g), max(r[ii] for r in g))
    return row


MULTI_HDR = ('n', 's', 'li', 'liw', 'rows', 'mn', 'mx')


def _multi_inputs(tier, seed):
    forms = itertools.cycle(SPEC_FORMS)
    for t, key, strat in _keyed_inputs(tier, seed, 300, salt=2):
        if strat is None and len(t) <= 2:
            for f in SPEC_FORMS:
                yield (t, key, strat, f)
        else:
            yield (t, key, strat, next(forms))


@group('aggregate.multi', _multi_inputs)
def aggregate_multi(inp):
    tbl, key, strat, form = inp
    hdr, rows, src = _src(tbl, key, strat)
    n, kw = len(rows), _kw(strat)
    G = ref_groups(hdr, rows, key)
    kf = _kfields(hdr, key)
    nk = len(kf)
    out = _run('aggregate-multi', lambda: _multi(src, key, form, kw), strat, n, _k1(key))
    _exp(all(len(r) == nk + 7 for r in out[1]), 'aggregate-multi', 'row-shape', strat, nk + 7, out[1])
    _exp(sum(r[nk] for r in out[1]) == n, 'aggregate-multi', 'count-sum', strat, n, out[1])
    _exp(sum(r[nk + 1] for r in out[1]) == sum(r[3] for r in rows), 'aggregate-multi', 'sum-total', strat,
         sum(r[3] for r in rows), out[1])
    _grouped('aggregate-multi', out, kf + MULTI_HDR, [k + _multi_expected(g, hdr) for k, g in G], nk, strat, _ik(key))
    if form == 'odict' and strat is None:
        # no aggregation at all: the distinct keys
        out = _run('aggregate-none', lambda: etl.aggregate(src, key), strat, n, _k1(key))
        _grouped('aggregate-none', out, kf, [k for k, g in G], nk, strat, _ik(key))


# ------------------------------------------------------------------------------------------------ aggregate, no key

KEYLESS_OPS = ('len', 'sum', 'list', 'multi', 'rows')


def _keyless_inputs(tier, seed):
    big = 4 if tier == 'thorough' else 3
    for body in _kcolumn_bodies(big):
        for op in KEYLESS_OPS:
            yield (mk(body), op)
    for n in range(4):
        for op in ('len', 'rows'):
            yield ([()] + [()] * n, op)


@group('aggregate.keyless', _keyless_inputs)
def aggregate_keyless(inp):
    tbl, op = inp
    hdr, rows = tuple(tbl[0]), [tuple(r) for r in tbl[1:]]
    n = len(rows)
    if op == 'len':
        out = _run('keyless-len', lambda: etl.aggregate(tbl, None, len), None, n)
        _exp(out == (('value',), [(n,)]), 'keyless-len', 'values', None, (('value',), [(n,)]), out)
    elif op == 'rows':
        # whole rows (no value field), any function
        out = _run('keyless-rows', lambda: etl.aggregate(tbl, None, list), None, n)
        _exp(same(out, (('value',), [(rows,)])), 'keyless-rows', 'values', None, (('value',), [(rows,)]), out)
    elif op == 'sum':
        total = sum(r[3] for r in rows)
        out = _run('keyless-sum', lambda: etl.aggregate(tbl, None, sum, 'w', field='total'), None, n)
        _exp(out == (('total',), [(total,)]), 'keyless-sum', 'values', None, (('total',), [(total,)]), out)
    elif op == 'list':
        out = _run('keyless-list', lambda: etl.aggregate(tbl, key=None, aggregation=list, value=('k', 'i')), None, n)
        exp = (('value',), [([(r[0], r[2]) for r in rows],)])
        _exp(same(out, exp), 'keyless-list', 'values', None, exp, out)
    else:
        # the multiple-field forms without a key: one row, every function applied to all the rows
        mm = n > 0
        for form in SPEC_FORMS:
            out = _run('keyless-multi', lambda: _multi(tbl, None, form, {}, minmax=mm), None, n)
            exp = (MULTI_HDR[:7 if mm else 5], [_multi_expected(rows, hdr, minmax=mm)])
            _exp(out[0] == exp[0], 'keyless-multi', 'header', None, exp[0], out[0])
            if n == 0:
                # petl's own suite (test_aggregate_empty_key_is_None) pins the multiple-field form on a table without
                # data rows to "header only" (min/max of nothing is undefined): that IS its zero-row definition
                _exp(out[1] == [], 'keyless-multi', 'header-only', None, [], out[1])
                continue
            _exp(same(out[1], exp[1]), 'keyless-multi', 'values', None, exp[1], out[1])


# ------------------------------------------------------------------------------------------------ rowreduce, rowgroupmap, fold

@group('rowreduce', lambda tier, seed: _keyed_inputs(tier, seed, 300, wide4=True, salt=3))
def rowreduce(inp):
    tbl, key, strat = inp
    hdr, rows, src = _src(tbl, key, strat)
    n, kw = len(rows), _kw(strat)
    G = ref_groups(hdr, rows, key)
    ii, wi = hdr.index('i'), hdr.index('w')

    def reducer(k, grp):
        grp = list(grp)
        return [k, len(grp), sum(r[wi] for r in grp), [tuple(r) for r in grp]]
    out = _run('rowreduce', lambda: etl.rowreduce(src, key, reducer, header=['key', 'n', 's', 'rows'], **kw), strat, n)
    _exp(all(len(r) == 4 for r in out[1]), 'rowreduce', 'row-shape', strat, 4, out[1])
    _exp(sum(r[1] for r in out[1]) == n, 'rowreduce', 'count-sum', strat, n, out[1])
    _grouped('rowreduce', out, ('key', 'n', 's', 'rows'),
             [(kout(k), len(g), sum(r[wi] for r in g), list(g)) for k, g in G], 1, strat)

    def mapper(k, grp):
        for pos, r in enumerate(grp):
            yield (k, pos, r[ii])
    out = _run('rowgroupmap', lambda: etl.rowgroupmap(src, key, mapper, header=('key', 'pos', 'i'), **kw), strat, n)
    exp = [(kout(k), pos, r[ii]) for k, g in G for pos, r in enumerate(g)]
    _exp(out[0] == ('key', 'pos', 'i'), 'rowgroupmap', 'header', strat, ('key', 'pos', 'i'), out[0])
    _exp(len(out[1]) == n, 'rowgroupmap', 'row-count', strat, n, out[1])
    _exp(same(out[1], exp), 'rowgroupmap', 'values', strat, exp, out[1])

    def f(a, b):
        return (a if isinstance(a, tuple) else (a,)) + (b,)
    out = _run('fold', lambda: etl.fold(src, key, f, 'i', **kw), strat, n)
    _grouped('fold', out, ('key', 'value'), [(kout(k), functools.reduce(f, [r[ii] for r in g])) for k, g in G], 1,
             strat)
    out = _run('fold-index0', lambda: etl.fold(src, key, f, 0, **kw), strat, n)
    _grouped('fold-index0', out, ('key', 'value'), [(kout(k), functools.reduce(f, [r[0] for r in g])) for k, g in G], 1,
             strat)
    out = _run('fold-add', lambda: etl.fold(src, key, operator.add, value='w', **kw), strat, n)
    _exp(all(len(r) == 2 for r in out[1]), 'fold-add', 'row-shape', strat, 2, out[1])
    _exp(sum(r[1] for r in out[1]) == sum(r[wi] for r in rows), 'fold-add', 'sum-total', strat,
         sum(r[wi] for r in rows), out[1])
    _grouped('fold-add', out, ('key', 'value'), [(kout(k), sum(r[wi] for r in g)) for k, g in G], 1, strat)
    if strat is None:
        # no header given: the source header
        out = _run('rowreduce-srchdr', lambda: etl.rowreduce(src, key, lambda k, g: list(g)[-1]), strat, n)
        _exp(out == (hdr, [g[-1] for k, g in G]), 'rowreduce-srchdr', 'values', strat, (hdr, [g[-1] for k, g in G]), out)


# ------------------------------------------------------------------------------------------------ groupselect*

def _member(op, out, G, hdr, key, strat):
    """one row per distinct key, ascending, each a row of its own group"""
    idx = _kidx(hdr, key)
    rows = out[1]
    _exp(out[0] == hdr, op, 'header', strat, hdr, out[0])
    gk = [tuple(r[i] for i in idx) if len(r) == len(hdr) else r for r in rows]
    _exp(same(gk, [k for k, g in G]), op, 'groups', strat, [k for k, g in G], rows)
    for r, (k, g) in zip(rows, G):
        _exp(any(same(r, m) for m in g), op, 'not-a-member', strat, g, r)


@group('groupselect', lambda tier, seed: _keyed_inputs(tier, seed, 300, salt=4, j_matters=True))
def groupselect(inp):
    tbl, key, strat = inp
    hdr, rows, src = _src(tbl, key, strat)
    n, kw = len(rows), _kw(strat)
    G = ref_groups(hdr, rows, key)

    out = _run('groupselectfirst', lambda: etl.groupselectfirst(src, key, **kw), strat, n)
    _member('groupselectfirst', out, G, hdr, key, strat)
    _exp(same(out[1], [g[0] for k, g in G]), 'groupselectfirst', 'not-first', strat, [g[0] for k, g in G], out[1])
    out = _run('groupselectlast', lambda: etl.groupselectlast(src, key, **kw), strat, n)
    _member('groupselectlast', out, G, hdr, key, strat)
    _exp(same(out[1], [g[-1] for k, g in G]), 'groupselectlast', 'not-last', strat, [g[-1] for k, g in G], out[1])

    for value in (('j', 'i') if (n <= 2 or strat is not None) else ('j',)):
        vi = hdr.index(value)
        out = _run('groupselectmin', lambda: etl.groupselectmin(src, key, value, **kw), strat, n)
        _member('groupselectmin', out, G, hdr, key, strat)
        for r, (k, g) in zip(out[1], G):
            _exp(not any(ref_lt(m[vi], r[vi]) for m in g), 'groupselectmin', 'not-minimal', strat, g, r)
        out = _run('groupselectmax', lambda: etl.groupselectmax(src, key, value, **kw), strat, n)
        _member('groupselectmax', out, G, hdr, key, strat)
        for r, (k, g) in zip(out[1], G):
            _exp(not any(ref_lt(r[vi], m[vi]) for m in g), 'groupselectmax', 'not-maximal', strat, g, r)


# ------------------------------------------------------------------------------------------------ mergeduplicates, merge

def _merged(g, vidx, missing):
    out = []
    for i in vidx:
        vals = []
        for r in g:
            if r[i] != missing and not any(v == r[i] for v in vals):
                vals.append(r[i])
        out.append(vals[0] if len(vals) == 1 else (missing if not vals else Conflict(vals)))
    return tuple(out)


def _check_merged(op, out, hdr, rows, key, missing, strat):
    G = ref_groups(hdr, rows, key)
    kidx = _kidx(hdr, key)
    vidx = [i for i in range(len(hdr)) if i not in kidx]
    exp_hdr = tuple(hdr[i] for i in kidx) + tuple(hdr[i] for i in vidx)
    exp = [k + _merged(g, vidx, missing) for k, g in G]
    _grouped(op, out, exp_hdr, exp, len(kidx), strat)
    for r, e in zip(out[1], exp):
        for a, b in zip(r, e):
            _exp(isinstance(a, Conflict) == isinstance(b, Conflict), op, 'conflict-marker', strat, e, r)


NAME_KEYS = ['k', ('k', 'j')]
NAME_KEYS_MORE = [('k',), ('j', 'k'), ['k', 'j'], 'j']


def _md_inputs(tier, seed):
    for t, key, strat in _keyed_inputs(tier, seed, 300, NAME_KEYS, NAME_KEYS_MORE, salt=5, j_matters=True):
        yield (t, key, strat, None)
        if strat is None and key in ('k', 'j') and (len(t) <= 3 or tier == 'thorough'):
            yield (t, key, strat, 0.0)       # equal to, not identical with, the 0 cells


@group('mergeduplicates', _md_inputs)
def mergeduplicates(inp):
    tbl, key, strat, missing = inp
    hdr, rows, src = _src(tbl, key, strat)
    kw = _kw(strat)
    if missing is not None:
        kw['missing'] = missing
    out = _run('mergeduplicates', lambda: etl.mergeduplicates(src, key, **kw), strat, len(rows), _k1(key))
    _check_merged('mergeduplicates', out, hdr, rows, key, missing, strat)


def _merge_inputs(tier, seed):
    thorough = tier == 'thorough'
    for body in _bodies(3 if thorough else 2):
        for key in NAME_KEYS:
            for m in range(len(body) + 1):
                yield (mk(body), key, m, None)
    for body in _kcolumn_bodies(4 if thorough else 3):
        n = len(body)
        for m in range(n + 1):
            for s in _strats(n):
                yield (mk(body), 'k', m, s)
    rnd = random.Random(seed * 1000 + 6)
    for _ in range(4000 if thorough else 300):
        n = rnd.randint(2, 4 if thorough else 3)
        body = tuple(rnd.choice(PAIRS) for _ in range(n))
        yield (mk(body), rnd.choice(NAME_KEYS + NAME_KEYS_MORE), rnd.randint(0, n), rnd.choice([None] + _strats(n)))


@group('merge', _merge_inputs)
def merge(inp):
    tbl, key, m, strat = inp
    hdr, rows = tuple(tbl[0]), [tuple(r) for r in tbl[1:]]
    # first m rows as they are; the rest in a table with another field order and without w
    hdr2 = ('k', 'i', 'j')
    a, b = rows[:m], [(r[0], r[2], r[1]) for r in rows[m:]]
    if strat == 'presorted':
        a, b = ref_sorted(hdr, a, key), ref_sorted(hdr2, b, key)
    allrows = rows[:m] + [(r[0], r[1], r[2], None) for r in rows[m:]]
    out = _run('merge', lambda: etl.merge([hdr] + a, [hdr2] + b, key=key, **_kw(strat)), strat, len(rows), _k1(key))
    _check_merged('merge', out, hdr, allrows, key, None, strat)


# ------------------------------------------------------------------------------------------------ groupcountdistinctvalues

def _gcdv_inputs(tier, seed):
    for body in _bodies(4 if tier == 'thorough' else 3):
        yield (mk(body), 'k', 'j')
    for body in _bodies(2):
        yield (mk(body), 'j', 'k')
        yield (mk(body), 'k', 'i')
        yield (mk(body), 0, 1)


@group('groupcountdistinctvalues', _gcdv_inputs)
def groupcountdistinctvalues(inp):
    tbl, key, value = inp
    hdr, rows = tuple(tbl[0]), [tuple(r) for r in tbl[1:]]
    G = ref_groups(hdr, rows, key)
    vi = _kidx(hdr, value)[0]

    def ndistinct(g):
        vals = []
        for r in g:
            if not any(ref_eq(r[vi], v) for v in vals):
                vals.append(r[vi])
        return len(vals)
    out = _run('groupcountdistinctvalues', lambda: etl.groupcountdistinctvalues(tbl, key, value), None, len(rows))
    _grouped('groupcountdistinctvalues', out, _kfields(hdr, key) + ('value',), [k + (ndistinct(g),) for k, g in G], 1,
             None, _ik(key))


# ------------------------------------------------------------------------------------------------ rowgroupby

def _rgb_inputs(tier, seed):
    big, small = (4, 3) if tier == 'thorough' else (3, 2)
    for body in _bodies(big):
        for key in KEYS_MAIN:
            yield (mk(body), key, None)
    for body in _bodies(small):
        for key in KEYS_MORE + ['callable:k', 'callable:kj']:
            for value in (None, 'i', ('i', 'w'), 'callable:i'):
                yield (mk(body), key, value)


def _callable(tok):
    if tok == 'callable:k':
        return lambda r: r['k']
    if tok == 'callable:kj':
        return lambda r: (r['k'], r['j'])
    if tok == 'callable:i':
        return lambda r: r['i']
    return tok


@group('rowgroupby', _rgb_inputs)
def rowgroupby(inp):
    tbl, key, value = inp
    hdr, rows = tuple(tbl[0]), [tuple(r) for r in tbl[1:]]
    refkey = {'callable:k': 'k', 'callable:kj': ('k', 'j')}.get(key, key) if isinstance(key, str) else key
    G = ref_groups(hdr, rows, refkey)
    src = [hdr] + ref_sorted(hdr, rows, refkey)            # rowgroupby assumes a key-sorted table
    ii, wi = hdr.index('i'), hdr.index('w')
    pick = {None: lambda r: r, 'i': lambda r: r[ii], 'callable:i': lambda r: r[ii],
            ('i', 'w'): lambda r: (r[ii], r[wi])}[value]
    try:
        got = [(k, [x for x in grp]) for k, grp in etl.rowgroupby(src, _callable(key), _callable(value))]
    except Exception as e:
        raise Fail('rowgroupby/exception/' + type(e).__name__, 'groups', repr(e))
    exp = [(kout(k), [pick(r) for r in g]) for k, g in G]
    expect(sum(len(g) for k, g in got) == len(rows), 'rowgroupby/count-sum', len(rows), got)
    expect(same([k for k, g in got], [k for k, g in exp]), 'rowgroupby/groups', [k for k, g in exp], got)
    expect(same(got, exp), 'rowgroupby/values', exp, got)
    # the Table method on a wrapped table is the same function
    if value is None and not isinstance(key, str):
        got2 = [(k, [x for x in grp]) for k, grp in etl.wrap(src).rowgroupby(key)]
        expect(same(got2, exp), 'rowgroupby/method', exp, got2)


# ------------------------------------------------------------------------------------------------ valuecounts / valuecounter

def _vc_inputs(tier, seed):
    big, small = (4, 3) if tier == 'thorough' else (3, 2)
    for body in _bodies(big):
        yield (mk(body), ('k',))
        yield (mk(body), ('k', 'j'))
    for body in _bodies(small):
        for flds in ((1,), ('j', 'k'), (0, 'j')):
            yield (mk(body), flds)


@group('valuecounts', _vc_inputs)
def valuecounts(inp):
    tbl, flds = inp
    hdr, rows = tuple(tbl[0]), [tuple(r) for r in tbl[1:]]
    n = len(rows)
    G = ref_groups(hdr, rows, flds)
    try:
        counter = etl.valuecounter(tbl, *flds)
    except Exception as e:
        raise Fail('valuecounter/exception/' + type(e).__name__, 'a Counter', repr(e))
    expect(sum(counter.values()) == n, 'valuecounter/count-sum', n, dict(counter))
    expect(len(counter) == len(G), 'valuecounter/groups', [kout(k) for k, g in G], dict(counter))
    for k, g in G:
        expect(counter[kout(k)] == len(g), 'valuecounter/values', (kout(k), len(g)), dict(counter))
    try:
        out = [tuple(r) for r in etl.valuecounts(tbl, *flds)]
    except Exception as e:
        sub = 'header-only/' if n == 0 else ''
        raise Fail('valuecounts/exception/' + sub + type(e).__name__, 'a table', repr(e))
    nk = len(flds)
    exp_hdr = tuple(flds) + ('count', 'frequency')
    if not _ik(flds):
        expect(out[0] == exp_hdr, 'valuecounts/header', exp_hdr, out[0])
    body = out[1:]
    expect(all(len(r) == nk + 2 for r in body), 'valuecounts/row-shape', nk + 2, body)
    expect(sum(r[nk] for r in body) == n, 'valuecounts/count-sum', n, body)
    expect(len(body) == len(G), 'valuecounts/groups', [k for k, g in G], body)
    for k, g in G:
        hit = [r for r in body if same(tuple(r[:nk]), k)]
        expect(len(hit) == 1 and hit[0][nk] == len(g), 'valuecounts/values', (k, len(g)), body)
        expect(abs(hit[0][nk + 1] - len(g) / float(n)) < 1e-12, 'valuecounts/frequency', len(g) / float(n), body)
    cs = [r[nk] for r in body]
    expect(cs == sorted(cs, reverse=True), 'valuecounts/most-common-first', sorted(cs, reverse=True), body)


# ------------------------------------------------------------------------------------------------ a source that fails once

class _Flaky(etl.Table):
    """a table whose first pass fails after `after` data rows (a dropped connection); later passes are complete"""

    def __init__(self, tbl, after):
        self.tbl, self.after, self.passes = tbl, after, 0

    def __iter__(self):
        self.passes += 1
        fail = self.passes == 1
        yield self.tbl[0]
        for i, r in enumerate(self.tbl[1:]):
            if fail and i == self.after:
                raise IOError('connection reset')
            yield r


def _retry_inputs(tier, seed):
    big = 4 if tier == 'thorough' else 3
    for body in _kcolumn_bodies(big):
        n = len(body)
        for after in range(n):
            for bs in [None] + list(range(1, n + 2)):
                yield (mk(body), 'k', bs, after)
    rnd = random.Random(seed * 1000 + 7)
    for _ in range(3000 if tier == 'thorough' else 150):
        n = rnd.randint(2, 4)
        body = tuple(rnd.choice(PAIRS) for _ in range(n))
        yield (mk(body), ('k', 'j'), rnd.choice([None] + list(range(1, n + 2))), rnd.randint(0, n - 1))


@group('retry', _retry_inputs)
def retry(inp):
    tbl, key, bs, after = inp
    hdr, rows = tuple(tbl[0]), [tuple(r) for r in tbl[1:]]
    G = ref_groups(hdr, rows, key)
    kf = _kfields(hdr, key)
    kw = {} if bs is None else {'buffersize': bs}
    views = [
        ('aggregate-len', lambda s: etl.aggregate(s, key, len, **kw), kf + ('value',),
         [k + (len(g),) for k, g in G], len(kf)),
        ('aggregate-multi', lambda s: etl.aggregate(s, key, [('s', 'w', sum), ('li', 'i')], **kw), kf + ('s', 'li'),
         [k + (sum(r[3] for r in g), [r[2] for r in g]) for k, g in G], len(kf)),
        ('rowreduce', lambda s: etl.rowreduce(s, key, lambda k, g: [k, [r[2] for r in g]], header=['key', 'li'], **kw),
         ('key', 'li'), [(kout(k), [r[2] for r in g]) for k, g in G], 1),
        ('groupselectlast', lambda s: etl.groupselectlast(s, key, **kw), hdr, [g[-1] for k, g in G], 0),
        ('mergeduplicates', lambda s: etl.mergeduplicates(s, key, **kw), None, None, 0),
    ]
    for op, mkview, exp_hdr, exp_rows, nk in views:
        view = mkview(_Flaky(tbl, after))
        try:
            list(view)
        except IOError:
            pass
        try:
            out = [tuple(r) for r in view]
        except Exception as e:
            raise Fail('%s/second-pass-exception/%s' % (op, type(e).__name__), 'a table', repr(e))
        out = (out[0], out[1:])
        if op == 'mergeduplicates':
            try:
                _check_merged(op, out, hdr, rows, key, None, None)
            except Fail as f:
                raise Fail('%s/second-pass' % op, f.expected, f.observed)
            continue
        try:
            _grouped(op, out, exp_hdr, exp_rows, nk, None)
        except Fail as f:
            raise Fail('%s/second-pass' % op, f.expected, f.observed)
