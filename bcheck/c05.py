"""C05 bounded stand-in: sort / mergesort against an independent stable reference sort under the C04 ordering, for every
small table x key form x reverse x buffersize x cache x pass."""
import itertools, random
from collections import Counter
import petl as etl
from .common import group, expect, Fail
from .sortref import ref_lt, ref_eq, key_indices, key_of, ref_sort, monotone, strict, classify

RULE = ('one case = one (table, key, reverse, buffersize, cache) sort view iterated 3 times, or one mergesort call iterated '
        'twice; tables enumerated exhaustively over a row alphabet that realises None / int / str keys, ties on the key '
        'with distinguishable rows (unique tag cell; or 1 / True / 1.0 when the whole row is the key), a missing key cell '
        '(short row), a missing non-key cell and a long row; non-trivial = at least two rows or a chunked path')
BOUND = {'quick': 'sort: all tagged tables <= 3 rows over 6 row contents (7 incl. a long row for <= 2 rows) x 5 key forms x reverse x buffersize 1..n+1,None '
                  'x cache x 3 passes, + 50 seeded tables of 4-5 rows; whole-row-key tables <= 3 rows over {None,1,True,1.0,"a"}; zero-field header; '
                  'mergesort: 1 table <= 3 rows, 2 tables <= 2 rows, 3-4 tables <= 1 row (+ 60 seeded 3-table sets with <= 2 rows) '
                  'x 3 keys x reverse x buffersize {None,1,2} x cache',
         'thorough': 'sort: 7 row contents <= 4 rows and 11 row contents <= 3 rows, whole-row-key tables of width 1-2 <= 4/3 '
                     'rows; mergesort: 2 tables <= 3/2 rows, 3 tables <= 2 rows, 4 tables <= 1 row, buffersize 1..3,None'}


def buffersizes(n):
    return list(range(1, n + 2)) + [None]


# --------------------------------------------------------------------------------------------- sort: tagged tables

HDR = ('i', 'k', 'v')
# row contents without the tag: full rows, a short row without v, a short row without k and v, a long row
CONTENTS_Q = [(None, 0), (0, 0), (0, 'a'), ('a', 0), (0,), (), (0, 0, 'x')]
CONTENTS_T = CONTENTS_Q + [(1, 0), ('a', 'a'), (None, 'a'), ('b', 0)]
KEYS = ['k', 1, ('k', 'v'), ('v', 'k'), None]


def tagged_tables(contents, maxrows):
    for n in range(maxrows + 1):
        for body in itertools.product(contents, repeat=n):
            yield [HDR] + [(i,) + tuple(c) for i, c in enumerate(body)]


def _sort_inputs(tier, seed):
    if tier == 'thorough':
        tabs = list(tagged_tables(CONTENTS_Q, 4)) + [t for t in tagged_tables(CONTENTS_T, 3)
                                                     if any(tuple(r[1:]) not in CONTENTS_Q for r in t[1:])]
    else:
        # the long row only in tables of <= 2 rows (its key cells are all present, it adds nothing to the order patterns)
        tabs = list(tagged_tables(CONTENTS_Q, 2)) + [t for t in tagged_tables(CONTENTS_Q[:6], 3) if len(t) == 4]
        # a seeded sample of 4- and 5-row tables: later chunks with >= 2 rows, three chunks of size 2,2,1
        rnd = random.Random(seed)
        for n, cnt in ((4, 30), (5, 20)):
            for _ in range(cnt):
                tabs.append([HDR] + [(i,) + tuple(rnd.choice(CONTENTS_Q)) for i in range(n)])
    for t in tabs:
        n = len(t) - 1
        for key in KEYS:
            for reverse in (False, True):
                for b in buffersizes(n):
                    for cache in (True, False):
                        yield (t, key, reverse, b, cache)


def check_sort(inp, npasses=3):
    table, key, reverse, b, cache = inp
    hdr, rows = tuple(table[0]), [tuple(r) for r in table[1:]]
    n = len(rows)
    idx = key_indices(hdr, key)
    exp = ref_sort(rows, idx, reverse)
    path = 'memory' if (b is None or n < b) else 'chunked'
    where = '%s/%s' % (path, 'reverse' if reverse else 'forward')
    ragged = any(len(r) != len(hdr) for r in rows)
    weak = key is None and ragged          # whether cells beyond / missing from the header take part is not stated
    base = None
    if weak:
        base = [tuple(r) for r in etl.sort(table, key, reverse=reverse)][1:]
    view = etl.sort(table, key, reverse=reverse, buffersize=b, cache=cache)
    for p in range(1, npasses + 1):
        out = [r for r in view]
        note = 'pass %d' % p
        expect(len(out) >= 1 and out[0] == hdr and isinstance(out[0], tuple), 'header/' + where, hdr, out[:1], note)
        got = out[1:]
        expect(all(isinstance(r, tuple) for r in got), 'row-type/' + where, 'tuples', got, note)
        if weak:
            expect(Counter(map(repr, got)) == Counter(map(repr, rows)), 'multiset/' + where, rows, got, note)
            expect(monotone(got, idx, reverse), 'unsorted/' + where, exp, got, note)
            expect(strict(got) == strict(base), 'differs-from-default-call/' + where, base, got, note)
        elif strict(got) != strict(exp):
            raise Fail('%s/%s' % (classify(got, exp, idx, reverse), where), exp, got, note)


@group('sort.spec', _sort_inputs)
def sort_spec(inp):
    check_sort(inp)


# --------------------------------------------------------------------- sort: the whole row is the key (ties by type)

def _plain_inputs(tier, seed):
    tabs = []
    cells1 = [None, 1, True, 1.0, 'a']
    cells2 = [None, 1, True]
    m1, m2 = (4, 3) if tier == 'thorough' else (3, 2)
    for n in range(m1 + 1):
        for body in itertools.product(cells1, repeat=n):
            tabs.append(([('f0',)] + [(c,) for c in body], [None, 'f0']))
    rows2 = list(itertools.product(cells2, repeat=2))
    for n in range(m2 + 1):
        for body in itertools.product(rows2, repeat=n):
            tabs.append(([('f0', 'f1')] + list(body), [None, ('f1', 'f0')]))
    for t, keys in tabs:
        n = len(t) - 1
        for key in keys:
            for reverse in (False, True):
                for b in buffersizes(n):
                    for cache in (True, False):
                        yield (t, key, reverse, b, cache)


@group('sort.wholerow', _plain_inputs)
def sort_wholerow(inp):
    check_sort(inp, npasses=2)


def _zero_inputs(tier, seed):
    # the zero-field header: every row has the empty key, so input order must be kept
    for n in range(3):
        for body in itertools.product([(), ('x',), ('y',)], repeat=n):
            for reverse in (False, True):
                for b in buffersizes(n):
                    yield ([()] + list(body), None, reverse, b, True)


@group('sort.zero-fields', _zero_inputs)
def sort_zero_fields(inp):
    try:
        check_sort(inp, npasses=2)
    except TypeError as ex:
        raise Fail('zero-field-header/TypeError', 'header () and the rows in input order', repr(ex))


# --------------------------------------------------------------------------------------------- mergesort

MS_CONTENTS = [(0, 0), (0, 'a'), (1, 0), (None, 0)]
MS_KEYS = ['k', ('k', 'v'), ('v', 'k')]


def _ms_tables(m, maxrows, contents):
    """m tables, tags 10*t+j identify (table, position)"""
    bodies = [b for n in range(maxrows + 1) for b in itertools.product(contents, repeat=n)]
    for combo in itertools.product(bodies, repeat=m):
        yield tuple([HDR] + [(10 * t + j,) + tuple(c) for j, c in enumerate(body)] for t, body in enumerate(combo))


def _ms_inputs(tier, seed):
    rnd = random.Random(seed)
    thorough = tier == 'thorough'
    sets = []
    sets += list(_ms_tables(1, 3, MS_CONTENTS))
    sets += list(_ms_tables(3, 1, MS_CONTENTS))
    if thorough:
        sets += list(_ms_tables(2, 2, MS_CONTENTS))
        sets += list(_ms_tables(4, 1, MS_CONTENTS[:3]))
        sets += [s for s in _ms_tables(2, 3, MS_CONTENTS[:3]) if any(len(t) == 4 for t in s)]
        sets += [s for s in _ms_tables(3, 2, MS_CONTENTS[:3]) if any(len(t) == 3 for t in s)]
    else:
        sets += list(_ms_tables(2, 2, MS_CONTENTS[:3]))
        sets += list(_ms_tables(4, 1, MS_CONTENTS[1:3]))
        big = [s for s in _ms_tables(3, 2, MS_CONTENTS[:3]) if any(len(t) == 3 for t in s)]
        sets += rnd.sample(big, 60)
    bsizes = [None, 1, 2, 3] if thorough else [None, 1, 2]
    for s in sets:
        for key in MS_KEYS:
            for reverse in (False, True):
                for b in bsizes:
                    cache = True if b is None else (len(s) + (b or 0)) % 2 == 0
                    yield (s, key, reverse, b, cache, None)
    # ragged rows, differing headers, header= / missing= : against petl's own sort(cat(...)) as the statement says
    a = [('i', 'k', 'v'), (0, 1, 'x'), (1, 0), (2,), (3, 0, 'y', 'long')]
    b_ = [('i', 'k', 'v'), (10, 0, 'z'), (11, None, 'x'), (12, 1)]
    c = [('i', 'v', 'k'), (20, 'x', 1), (21, 'y', 0), (22, 'z')]
    d = [('i', 'k', 'w'), (30, 0, 'W'), (31, 1, 'W')]
    e = [('i', 'k', 'v')]
    for s in [(a, b_), (b_, a), (a, c), (c, a, b_), (a, d), (d, c, b_, a), (e, a, e), (e, e), (e,), (a, e, b_, e), (c, d)]:
        for key in ['k', ('k', 'i'), 'i']:
            for reverse in (False, True):
                for b in [None, 1, 2]:
                    for extra in [None, ('header', ('k', 'i')), ('header', ('i', 'k', 'v', 'zz')), ('missing', 'M')]:
                        yield (s, key, reverse, b, True, extra)
    # key=None: rows are the key (tags would make every comparison trivially int-int, so: untagged)
    cells = [None, 0, 1, 'a'] if thorough else [None, 0, 'a']
    one = [[('f',)] + [(x,) for x in body] for n in range(3) for body in itertools.product(cells, repeat=n)]
    for ta, tb in itertools.product(one, repeat=2):
        for reverse in (False, True):
            yield ((ta, tb), None, reverse, None, True, None)
    for s in [(one[1],), (one[1], one[2], one[3]), (one[0], one[0]), (one[2], one[2], one[2], one[2])]:
        for reverse in (False, True):
            yield (s, None, reverse, 1, True, None)


@group('mergesort.vs-sort-cat', _ms_inputs)
def mergesort_vs_sort_cat(inp):
    tables, key, reverse, b, cache, extra = inp
    tables = [list(t) for t in tables]
    kw = {}
    if extra is not None:
        kw[extra[0]] = extra[1]
    where = 'reverse' if reverse else 'forward'
    ragged = any(len(r) != len(t[0]) for t in tables for r in t[1:])
    keycell_missing = key is not None and any(i >= len(r) for t in tables for r in t[1:] for i in key_indices(t[0], key))
    viacat = [tuple(r) for r in etl.sort(etl.cat(*tables, **kw), key, reverse=reverse)]
    # independent reference where cat is plain concatenation (same header, rectangular rows)
    spec = None
    if extra is None and len(set(tuple(t[0]) for t in tables)) == 1 and not ragged:
        hdr = tuple(tables[0][0])
        idx = key_indices(hdr, key)
        spec = [hdr] + ref_sort([tuple(r) for t in tables for r in t[1:]], idx, reverse)
    view = etl.mergesort(*tables, key=key, reverse=reverse, buffersize=b, cache=cache, **kw)
    for p in (1, 2):
        note = 'pass %d' % p
        try:
            got = [r for r in view]
        except TypeError as ex:
            if key is None:
                raise Fail('keyless-raw-comparison/TypeError', viacat, repr(ex), note)
            raise
        except ValueError as ex:
            if extra is not None and extra[0] == 'header' and ragged:
                raise Fail('fixed-header-ragged-row/ValueError', viacat, repr(ex), note)
            raise
        if spec is not None and strict(got) != strict(spec):
            raise Fail('%s/%s' % (classify(got[1:], spec[1:], idx, reverse), where), spec, got, note)
        if strict(got) != strict(viacat):
            sub = 'differs-from-sort-cat/' + where
            if extra is not None and extra[0] == 'missing' and keycell_missing:
                sub = 'missing-fills-key-cell/differs-from-sort-cat'
            raise Fail(sub, viacat, got, note)
