"""C07 bounded stand-in: the five hash joins on the real petl against (1) the nested-loop relational reference of C06,
(2) their sort-merge twins (same header, same multiset of rows), (3) the order of the streamed side, for cache on/off and two
passes over the same view; and the six lookup builders against a reference dictionary built with a plain loop."""
import itertools
from collections import Counter
import petl as etl
from petl.errors import DuplicateKeyError
from . import common
from .common import group, expect, Fail

_saved = dict(common.GROUPS)            # importing bcheck.c06 registers C06's groups: keep only our own
from .c06 import (square, ref_join, resolve_keys, keq, shape_tag, seqs, rect_cases, ragged_cases, K3, K5)
common.GROUPS.clear()
common.GROUPS.update(_saved)

RULE = ('hash joins: one case = (hash operator, left table, right table, key/prefix/missing/cache arguments), the table pairs '
        'and layouts of C06 (key cells from {None, 0, 1, "a", (0,)}: all hashable; duplicates and header-only on both sides; key at '
        'different column positions; compound keys in different column order; prefixes; missing="NA"; ragged rows for the '
        'operators that square up, rectangular for hashantijoin), each evaluated for two passes over one view; '
        'lookups: one case = (builder, table, key, value, strict) over every table of <= N rows with key cells '
        '{None, 0, "a", (0,)} x value cells {None, 0, 1} (repeated keys, None keys, None values) and a compound key given in '
        'non-column order; distinct = distinct argument tuples')
BOUND = {'quick': 'joins: N = 2 data rows per side, exhaustive per C06 layout (+ 1500 seeded 3-row pairs in two layouts), cache on '
                  'and off, two passes; lookups: N = 3 rows exhaustive',
         'thorough': 'joins: N = 3 rows per side exhaustive for the rectangular layouts, ragged N = 2 exhaustive + 60000 seeded '
                     '3-row pairs per layout; lookups: N = 4 rows exhaustive (single and compound key)'}

TWIN = {'hashjoin': 'join', 'hashleftjoin': 'leftjoin', 'hashrightjoin': 'rightjoin', 'hashantijoin': 'antijoin',
        'hashlookupjoin': 'lookupjoin'}
HAS_CACHE = ('hashjoin', 'hashleftjoin', 'hashrightjoin')


def ref_right_major(left, right, kw):
    """rightjoin rows in the order of the right table (the side hashrightjoin streams)"""
    missing = kw.get('missing')
    lhdr, rhdr = tuple(left[0]), tuple(right[0])
    lkind, rkind = resolve_keys(lhdr, rhdr, kw)
    rvind = [i for i in range(len(rhdr)) if i not in rkind]
    L = square(left[1:], len(lhdr), missing)
    R = square(right[1:], len(rhdr), missing)
    rows = []
    for r in R:
        rk = tuple(r[i] for i in rkind)
        rv = tuple(r[i] for i in rvind)
        partners = [l for l in L if keq(tuple(l[i] for i in lkind), rk)]
        for l in partners:
            rows.append(l + rv)
        if not partners:
            out = [missing] * len(lhdr)
            for li, ri in zip(lkind, rkind):
                out[li] = r[ri]
            rows.append(tuple(out) + rv)
    return rows


def _strip(kw, *names):
    return dict((k, v) for k, v in kw.items() if k not in names)


def check_hash(inp):
    op, left, right, kw = inp
    left, right = [tuple(r) for r in left], [tuple(r) for r in right]
    twin = TWIN[op]
    hdr, exp, lkind, lk, rk = ref_join(twin, left, right, kw)
    tag = shape_tag(left, right, lk, rk)
    nl = len(left[0])
    try:
        view = getattr(etl, op)(list(left), list(right), **kw)
        p1 = [tuple(r) for r in view]
        p2 = [tuple(r) for r in view]
    except Exception as e:
        raise Fail('raised-%s%s' % (type(e).__name__, tag), [hdr] + exp, repr(e))
    # (1) against the relational reference
    expect(len(p1) >= 1 and p1[0] == hdr, 'header' + tag, hdr, p1[:1])
    got = p1[1:]
    expect(Counter(got) == Counter(exp), 'rows-vs-spec' + tag, exp, got)
    # (3) order of the streamed side
    if op == 'hashantijoin':
        expect(got == exp, 'stream-order' + tag, exp, got)
    elif op == 'hashrightjoin':
        def proj(r):
            return tuple(r[i] for i in lkind), r[nl:]
        rm = ref_right_major(left, right, kw)
        expect([proj(r) for r in got] == [proj(r) for r in rm], 'stream-order' + tag, rm, got)
    else:
        expect([r[:nl] for r in got] == [r[:nl] for r in exp], 'stream-order' + tag, exp, got)
    # repeated pass over the same view (cache on: served from the kept lookup)
    expect(p2 == p1, 'second-pass-differs' + tag, p1, p2)
    # (2) against the sort-merge twin
    tkw = _strip(kw, 'cache')
    if twin == 'join':
        if tkw.get('missing') is not None:
            return                      # join() has no `missing`: nothing to compare with
        tkw = _strip(tkw, 'missing')
    try:
        tw = [tuple(r) for r in getattr(etl, twin)(list(left), list(right), **tkw)]
    except Exception as e:
        raise Fail('twin-raised-%s%s' % (type(e).__name__, tag), p1, repr(e))
    expect(tw[:1] == p1[:1], 'header-vs-twin' + tag, tw[:1], p1[:1])
    expect(Counter(tw[1:]) == Counter(got), 'rows-vs-twin' + tag, tw[1:], got)


def _kw_for(op, kw):
    kw = _strip(kw, 'presorted')
    if op == 'hashantijoin':
        kw = _strip(kw, 'missing', 'lprefix', 'rprefix')
    return kw


def _inputs_for(op):
    def inputs(tier, seed):
        caches = (True, False) if op in HAS_CACHE else (None,)
        for l, r, kw in rect_cases(tier, seed):
            for c in caches:
                k2 = _kw_for(op, kw)
                if c is not None:
                    k2['cache'] = c
                yield (op, l, r, k2)
        if op == 'hashantijoin':
            return                      # the anti joins do not square up: rectangular tables only
        for l, r in ragged_cases(tier, seed):
            for c in caches:
                for kw in ({'key': 'k'}, {'key': 'k', 'missing': 'NA'}):
                    k2 = dict(kw)
                    if c is not None:
                        k2['cache'] = c
                    yield (op, l, r, k2)
    return inputs


for _op in sorted(TWIN):
    group(_op, _inputs_for(_op))(check_hash)


# ------------------------------------------------------------------------------------------- lookups

def _fields(x):
    return list(x) if isinstance(x, (list, tuple)) else [x]


def ref_lookup(table, key, value):
    """key -> list of values in table order (plain loop)"""
    hdr = list(table[0])
    kind = [hdr.index(f) for f in _fields(key)]
    d = {}
    for r in table[1:]:
        k = r[kind[0]] if len(kind) == 1 else tuple(r[i] for i in kind)
        if value is None:
            v = tuple(r)
        else:
            vind = [hdr.index(f) for f in _fields(value)]
            v = r[vind[0]] if len(vind) == 1 else tuple(r[i] for i in vind)
        if k not in d:
            d[k] = []
        d[k].append(v)
    return d


def _lookup_tables(tier):
    n1 = 4 if tier == 'thorough' else 3
    rows1 = list(itertools.product((None, 0, 'a', (0,)), (None, 0, 1)))
    for body in seqs(rows1, n1):
        yield [('k', 'v')] + list(body), 'k', (None, 'v', ('v', 'k'))
    rows2 = list(itertools.product((None, 0), (None, 0), (None, 1)))
    for body in seqs(rows2, n1):
        yield [('a', 'b', 'v')] + list(body), ('b', 'a'), (None, 'v', ('v', 'a'))


def _lookup_inputs(tier, seed):
    for t, key, values in _lookup_tables(tier):
        for v in values:
            yield ('lookup', t, key, v, False)
            yield ('lookupone', t, key, v, False)
            yield ('lookupone', t, key, v, True)
        for fn in ('dictlookup', 'recordlookup'):
            yield (fn, t, key, None, False)
            yield (fn + 'one', t, key, None, False)
            yield (fn + 'one', t, key, None, True)


def _same_value(fn, got, row, hdr):
    """got: what the builder stored for one row; row: the row's reference value"""
    if fn.startswith('dict'):
        return type(got) is dict and got == dict(zip(hdr, row))
    if fn.startswith('record'):
        return tuple(got) == tuple(row) and all(got[f] == c for f, c in zip(hdr, row))
    return got == row and type(got) is type(row)


@group('lookups', _lookup_inputs)
def lookups(inp):
    fn, table, key, value, strict = inp
    table = [tuple(r) for r in table]
    hdr = table[0]
    ref = ref_lookup(table, key, value)
    repeats = any(len(v) > 1 for v in ref.values())
    one = fn.endswith('one')
    args = [list(table), key] + ([value] if fn in ('lookup', 'lookupone') else [])
    kw = {'strict': strict} if one else {}
    try:
        got = getattr(etl, fn)(*args, **kw)
    except DuplicateKeyError as e:
        expect(one and strict and repeats, fn + '/strict-raised-without-repeated-key', ref, repr(e))
        return
    except Exception as e:
        raise Fail('%s/raised-%s' % (fn, type(e).__name__), ref, repr(e))
    expect(not (one and strict and repeats), fn + '/strict-did-not-raise', 'DuplicateKeyError', got)
    expect(set(got.keys()) == set(ref.keys()) and len(got) == len(ref), fn + '/keys', sorted(map(repr, ref)), sorted(map(repr, got)))
    for k, vals in ref.items():
        if one:
            expect(_same_value(fn, got[k], vals[0], hdr), fn + '/first-value', vals[0], got[k])
        else:
            g = got[k]
            expect(isinstance(g, list) and len(g) == len(vals) and all(_same_value(fn, x, y, hdr) for x, y in zip(g, vals)),
                   fn + '/values-in-table-order', vals, g)
