"""C20 bounded stand-in: every public operator of petl.transform.* and petl.util.* accepts header-only tables on any or all
of its table inputs: it never raises and returns what its definition gives for zero rows.

The catalogue below is written from the documentation (one entry per operator / argument form).  A coverage group checks
that every function the two packages export on the pinned tree is either in the catalogue or in the explicit
NOT_APPLICABLE list (no table argument / optional dependency missing)."""
import functools, io, itertools, operator
from collections import OrderedDict, Counter
import petl as etl
from . import common
from .common import group, expect, Fail
_before = set(common.GROUPS)
from .c04 import ref_lt, ref_eq          # the C04 ordering (spec side); its groups belong to C04, not to this module
for _k in set(common.GROUPS) - _before:
    del common.GROUPS[_k]

RULE = ('one case = (operator / argument form, header shape 0 / 1 / 3 fields, which of its table inputs are header-only '
        '(every non-empty subset of positions), how the header-only table is represented (list of a tuple, list of a '
        'list, an iterable object whose iterator is a generator), and for operators with several inputs the data of '
        'the other side (3 unsorted rows; a variant whose smallest key is None)); the operator is called, its result '
        'fully materialised, and compared with the zero-row value of its documented definition; callbacks that must '
        'not run on zero rows raise if called; distinct = distinct literal inputs; every case is non-trivial')
BOUND = {'quick': 'the whole catalogue (every exported operator of petl.transform and petl.util that takes a table) x '
                  'shapes x positions x 3 representations; exhaustive, nothing sampled',
         'thorough': 'same as quick (the scope is finite and small)'}

FORMS = ('list-of-tuple', 'list-of-list', 'iterable-object')


class HeaderOnly(object):
    """a table container that is not a list: each iterator is a generator yielding the header and nothing else"""
    def __init__(self, hdr):
        self.hdr = hdr

    def __iter__(self):
        yield self.hdr


def Hd(w):
    return {0: (), 1: ('a',), 3: ('a', 'b', 'c')}[w]


def Rh(w):
    """header of the right-hand table of a join (shares the key field a)"""
    return {0: (), 1: ('a',), 3: ('a', 'd', 'e')}[w]


def empty_table(hdr, form):
    if form == 'list-of-tuple':
        return [tuple(hdr)]
    if form == 'list-of-list':
        return [list(hdr)]
    return HeaderOnly(tuple(hdr))


def other_rows(w, variant, side):
    """the data rows of a non-empty input: 3 rows, unsorted, unique keys; variant 'nonekey': the smallest key is None"""
    keys = [2, None, 1] if variant == 'nonekey' else [2, 3, 1]
    if w == 0:
        return [(), ()]
    if w == 1:
        return [(k,) for k in keys]
    tag = 'LRX'[side]
    return [(k, '%s%d' % (tag, i), i % 2 == 0) for i, k in enumerate(keys)]


def never(*a, **k):
    raise AssertionError('callback invoked although there is no data row')


def lot(t):
    return [tuple(r) for r in t]


def ref_sorted(rows, kidx=None):
    def keyof(r):
        return tuple(r) if kidx is None else tuple(r[i] for i in kidx)

    def cmp(x, y):
        kx, ky = keyof(x[1]), keyof(y[1])
        return -1 if ref_lt(kx, ky) else (1 if ref_lt(ky, kx) else x[0] - y[0])
    return [r for _, r in sorted(enumerate(rows), key=functools.cmp_to_key(cmp))]


W13, W013, W3, W0 = (1, 3), (0, 1, 3), (3,), (0,)
UP = lambda h: tuple(x.upper() for x in h)

# ------------------------------------------------------------------------------------------------ unary: table -> table
# (name, widths, call(t, h), expected(h) -> list of tuples)
UNARY = []


def U(name, widths, call, exp):
    UNARY.append((name, widths, call, exp))


def same(h):
    return [h]


# basics
U('cut', W13, lambda t, h: etl.cut(t, 'a'), lambda h: [('a',)])
U('cut/multi', W3, lambda t, h: etl.cut(t, 'c', 'a'), lambda h: [('c', 'a')])
U('cut/index', W13, lambda t, h: etl.cut(t, 0), lambda h: [('a',)])
U('cutout', W13, lambda t, h: etl.cutout(t, 'a'), lambda h: [h[1:]])
U('movefield', W13, lambda t, h: etl.movefield(t, 'a', len(h) - 1), lambda h: [h[1:] + ('a',)])
U('cat', W013, lambda t, h: etl.cat(t), same)
U('cat/header', W013, lambda t, h: etl.cat(t, header=['x', 'a']), lambda h: [('x', 'a')])
U('stack', W013, lambda t, h: etl.stack(t), same)
U('addfield', W013, lambda t, h: etl.addfield(t, 'n', 1), lambda h: [h + ('n',)])
U('addfield/callable-index0', W013, lambda t, h: etl.addfield(t, 'n', never, index=0), lambda h: [('n',) + h])
U('addfields', W013, lambda t, h: etl.addfields(t, [('n', 1), ('m', never)]), lambda h: [h + ('n', 'm')])
U('addfieldusingcontext', W013, lambda t, h: etl.addfieldusingcontext(t, 'n', never), lambda h: [h + ('n',)])
U('addrownumbers', W013, lambda t, h: etl.addrownumbers(t), lambda h: [('row',) + h])
U('addcolumn', W013, lambda t, h: etl.addcolumn(t, 'n', []), lambda h: [h + ('n',)])
U('addcolumn/index0', W013, lambda t, h: etl.addcolumn(t, 'n', [], index=0), lambda h: [('n',) + h])
U('rowslice', W013, lambda t, h: etl.rowslice(t, 1, 3), same)
U('rowslice/stop', W013, lambda t, h: etl.rowslice(t, 2), same)
U('rowslice/step', W013, lambda t, h: etl.rowslice(t, 0, 5, 2), same)
U('head', W013, lambda t, h: etl.head(t), same)
U('head/0', W013, lambda t, h: etl.head(t, 0), same)
U('tail', W013, lambda t, h: etl.tail(t), same)
U('tail/1', W013, lambda t, h: etl.tail(t, 1), same)
U('skipcomments', W13, lambda t, h: etl.skipcomments(t, '#'), same)
U('annex/single', W013, lambda t, h: etl.annex(t), same)
# headers
U('rename', W13, lambda t, h: etl.rename(t, 'a', 'z'), lambda h: [('z',) + h[1:]])
U('rename/dict', W013, lambda t, h: etl.rename(t, {'a': 'z'} if h else {}), lambda h: [(('z',) + h[1:]) if h else h])
U('setheader', W013, lambda t, h: etl.setheader(t, list(UP(h))), lambda h: [UP(h)])
U('extendheader', W013, lambda t, h: etl.extendheader(t, ['e']), lambda h: [h + ('e',)])
U('pushheader', W013, lambda t, h: etl.pushheader(t, list(UP(h))), lambda h: [UP(h), h])
U('pushheader/args', W3, lambda t, h: etl.pushheader(t, *UP(h)), lambda h: [UP(h), h])
U('skip/0', W013, lambda t, h: etl.skip(t, 0), same)
U('skip/1', W013, lambda t, h: etl.skip(t, 1), lambda h: [])
U('prefixheader', W013, lambda t, h: etl.prefixheader(t, 'p_'), lambda h: [tuple('p_' + x for x in h)])
U('suffixheader', W013, lambda t, h: etl.suffixheader(t, '_s'), lambda h: [tuple(x + '_s' for x in h)])
U('sortheader', W013, lambda t, h: etl.sortheader(t), lambda h: [tuple(sorted(h))])
# conversions
U('convert', W13, lambda t, h: etl.convert(t, 'a', never), same)
U('convert/dict', W13, lambda t, h: etl.convert(t, {'a': never}), same)
U('convert/list', W013, lambda t, h: etl.convert(t, [never] * len(h)), same)
U('convert/where-passrow', W13, lambda t, h: etl.convert(t, 'a', never, where=never, pass_row=True), same)
U('convert/failonerror', W13, lambda t, h: etl.convert(t, 'a', never, failonerror=True), same)
U('convertall', W013, lambda t, h: etl.convertall(t, never), same)
U('replace', W13, lambda t, h: etl.replace(t, 'a', 1, 2), same)
U('replaceall', W013, lambda t, h: etl.replaceall(t, 1, 2), same)
U('update', W13, lambda t, h: etl.update(t, 'a', 0), same)
U('convertnumbers', W013, lambda t, h: etl.convertnumbers(t), same)
U('format', W13, lambda t, h: etl.format(t, 'a', '{}'), same)
U('formatall', W013, lambda t, h: etl.formatall(t, '{}'), same)
U('interpolate', W13, lambda t, h: etl.interpolate(t, 'a', '%s'), same)
U('interpolateall', W013, lambda t, h: etl.interpolateall(t, '%s'), same)
U('sub', W13, lambda t, h: etl.sub(t, 'a', 'x', 'y'), same)
# sorts
U('sort', W013, lambda t, h: etl.sort(t), same)
U('sort/key', W13, lambda t, h: etl.sort(t, 'a'), same)
U('sort/reverse-buffersize1', W13, lambda t, h: etl.sort(t, 'a', reverse=True, buffersize=1), same)
U('sort/nocache', W013, lambda t, h: etl.sort(t, cache=False), same)
U('mergesort/single', W013, lambda t, h: etl.mergesort(t), same)
U('mergesort/single-key', W13, lambda t, h: etl.mergesort(t, key='a'), same)
# selects
U('select/row', W013, lambda t, h: etl.select(t, never), same)
U('select/field', W13, lambda t, h: etl.select(t, 'a', never), same)
U('select/expr', W13, lambda t, h: etl.select(t, '{a} > 1'), same)
U('select/complement', W013, lambda t, h: etl.select(t, never, complement=True), same)
U('selectop', W13, lambda t, h: etl.selectop(t, 'a', 1, operator.eq), same)
for _n in ('selecteq', 'selectne', 'selectlt', 'selectle', 'selectgt', 'selectge', 'selectis', 'selectisnot'):
    U(_n, W13, (lambda f: lambda t, h: f(t, 'a', 1))(getattr(etl, _n)), same)
U('selectcontains', W13, lambda t, h: etl.selectcontains(t, 'a', 'x'), same)
U('selectin', W13, lambda t, h: etl.selectin(t, 'a', [1, 2]), same)
U('selectnotin', W13, lambda t, h: etl.selectnotin(t, 'a', [1, 2]), same)
U('selectisinstance', W13, lambda t, h: etl.selectisinstance(t, 'a', int), same)
for _n in ('selectrangeopenleft', 'selectrangeopenright', 'selectrangeopen', 'selectrangeclosed'):
    U(_n, W13, (lambda f: lambda t, h: f(t, 'a', 0, 2))(getattr(etl, _n)), same)
for _n in ('selecttrue', 'selectfalse', 'selectnone', 'selectnotnone'):
    U(_n, W13, (lambda f: lambda t, h: f(t, 'a'))(getattr(etl, _n)), same)
    U(_n + '/complement', W13, (lambda f: lambda t, h: f(t, 'a', complement=True))(getattr(etl, _n)), same)
U('selectusingcontext', W013, lambda t, h: etl.selectusingcontext(t, never), same)
U('rowlenselect', W013, lambda t, h: etl.rowlenselect(t, len(h)), same)
U('rowlenselect/complement', W013, lambda t, h: etl.rowlenselect(t, 1, complement=True), same)
# fills
U('filldown', W013, lambda t, h: etl.filldown(t), same)
U('filldown/field', W13, lambda t, h: etl.filldown(t, 'a'), same)
U('filldown/missing', W13, lambda t, h: etl.filldown(t, 'a', missing=''), same)
U('fillright', W013, lambda t, h: etl.fillright(t), same)
U('fillleft', W013, lambda t, h: etl.fillleft(t), same)
# regex
U('capture', W13, lambda t, h: etl.capture(t, 'a', '(.)(.)', ['x', 'y']), lambda h: [h[1:] + ('x', 'y')])
U('capture/include_original', W13, lambda t, h: etl.capture(t, 'a', '(.)', ['x'], include_original=True),
  lambda h: [h + ('x',)])
U('split', W13, lambda t, h: etl.split(t, 'a', '-', ['x', 'y']), lambda h: [h[1:] + ('x', 'y')])
U('split/include_original', W13, lambda t, h: etl.split(t, 'a', '-', ['x'], include_original=True), lambda h: [h + ('x',)])
U('splitdown', W13, lambda t, h: etl.splitdown(t, 'a', '-'), same)
U('search', W013, lambda t, h: etl.search(t, '.'), same)
U('search/field', W13, lambda t, h: etl.search(t, 'a', '.'), same)
U('searchcomplement', W013, lambda t, h: etl.searchcomplement(t, '.'), same)
U('searchcomplement/field', W13, lambda t, h: etl.searchcomplement(t, 'a', '.'), same)
# reshape
U('melt', W13, lambda t, h: etl.melt(t, 'a'), lambda h: [('a', 'variable', 'value')])
U('melt/variables', W13, lambda t, h: etl.melt(t, variables=['a']), lambda h: [h[1:] + ('variable', 'value')])
U('transpose', W13, lambda t, h: etl.transpose(t), lambda h: [(f,) for f in h])
U('pivot', W3, lambda t, h: etl.pivot(t, 'a', 'b', 'c', never), lambda h: [('a',)])
U('unflatten/flatten', W013, lambda t, h: etl.unflatten(etl.flatten(t), 2), lambda h: [('f0', 'f1')])
U('unflatten/field', W13, lambda t, h: etl.unflatten(t, 'a', 2), lambda h: [('f0', 'f1')])
# maps
U('fieldmap', W13, lambda t, h: etl.fieldmap(t, OrderedDict([('x', 'a'), ('y', ('a', never)), ('z', never)])),
  lambda h: [('x', 'y', 'z')])
U('fieldmap/none', W013, lambda t, h: etl.fieldmap(t), lambda h: [()])
U('rowmap', W013, lambda t, h: etl.rowmap(t, never, header=['x', 'y']), lambda h: [('x', 'y')])
U('rowmapmany', W013, lambda t, h: etl.rowmapmany(t, never, header=['x', 'y']), lambda h: [('x', 'y')])
U('rowgroupmap', W13, lambda t, h: etl.rowgroupmap(t, 'a', never, header=['x', 'y']), lambda h: [('x', 'y')])
# unpacks
U('unpack', W13, lambda t, h: etl.unpack(t, 'a', ['x', 'y']), lambda h: [h[1:] + ('x', 'y')])
U('unpack/int-include_original', W13, lambda t, h: etl.unpack(t, 'a', 2, include_original=True),
  lambda h: [h + ('a1', 'a2')])
U('unpackdict', W13, lambda t, h: etl.unpackdict(t, 'a'), lambda h: [h[1:]])
U('unpackdict/keys', W13, lambda t, h: etl.unpackdict(t, 'a', keys=['k'], includeoriginal=True), lambda h: [h + ('k',)])
# dedup
U('duplicates', W013, lambda t, h: etl.duplicates(t), same)
U('duplicates/key', W13, lambda t, h: etl.duplicates(t, 'a'), same)
U('unique', W013, lambda t, h: etl.unique(t), same)
U('unique/key', W13, lambda t, h: etl.unique(t, 'a'), same)
U('conflicts', W13, lambda t, h: etl.conflicts(t, 'a'), same)
U('distinct', W013, lambda t, h: etl.distinct(t), same)
U('distinct/key', W13, lambda t, h: etl.distinct(t, 'a'), same)
U('distinct/count', W013, lambda t, h: etl.distinct(t, count='n'), lambda h: [h + ('n',)])
U('distinct/presorted', W013, lambda t, h: etl.distinct(t, presorted=True), same)
# reductions
U('rowreduce', W13, lambda t, h: etl.rowreduce(t, 'a', never, header=['a', 'n']), lambda h: [('a', 'n')])
U('rowreduce/source-header', W13, lambda t, h: etl.rowreduce(t, 'a', never), same)
U('aggregate', W13, lambda t, h: etl.aggregate(t, 'a', len), lambda h: [('a', 'value')])
U('aggregate/value-field', W3, lambda t, h: etl.aggregate(t, 'a', sum, 'b', field='total'), lambda h: [('a', 'total')])
U('aggregate/compound-key', W3, lambda t, h: etl.aggregate(t, ('a', 'b'), list, 'c'), lambda h: [('a', 'b', 'value')])
U('aggregate/keyless-len', W013, lambda t, h: etl.aggregate(t, None, len), lambda h: [('value',), (0,)])
U('aggregate/keyless-sum', W13, lambda t, h: etl.aggregate(t, None, sum, 'a'), lambda h: [('value',), (0,)])
U('aggregate/keyless-list', W13, lambda t, h: etl.aggregate(t, None, list, 'a'), lambda h: [('value',), ([],)])
U('aggregate/multi', W3, lambda t, h: etl.aggregate(t, 'a', OrderedDict([('n', len), ('s', ('b', sum)), ('l', 'c')])),
  lambda h: [('a', 'n', 's', 'l')])
U('aggregate/multi-keyless', W13, lambda t, h: etl.aggregate(t, None, OrderedDict([('n', len), ('s', ('a', sum)), ('l', 'a')])),
  lambda h: [('n', 's', 'l')])   # zero-row definition of the multiple-field form: header only (pinned by test_aggregate_empty_key_is_None)
U('groupcountdistinctvalues', W3, lambda t, h: etl.groupcountdistinctvalues(t, 'a', 'b'), lambda h: [('a', 'value')])
U('groupselectfirst', W13, lambda t, h: etl.groupselectfirst(t, 'a'), same)
U('groupselectlast', W13, lambda t, h: etl.groupselectlast(t, 'a'), same)
U('groupselectmin', W3, lambda t, h: etl.groupselectmin(t, 'a', 'b'), same)
U('groupselectmax', W3, lambda t, h: etl.groupselectmax(t, 'a', 'b'), same)
U('mergeduplicates', W13, lambda t, h: etl.mergeduplicates(t, 'a'), same)
U('fold', W3, lambda t, h: etl.fold(t, 'a', never, 'b'), lambda h: [('key', 'value')])
U('merge/single', W13, lambda t, h: etl.merge(t, key='a'), same)
# validation
U('validate', W13, lambda t, h: etl.validate(t, constraints=[dict(name='a_int', field='a', test=never)], header=h),
  lambda h: [('name', 'row', 'field', 'value', 'error')])
# util: views that are tables
U('wrap', W013, lambda t, h: etl.wrap(t), same)
U('cache', W013, lambda t, h: etl.util.materialise.cache(t), same)
U('progress', W013, lambda t, h: etl.progress(t, 1, out=io.StringIO()), same)
U('log_progress', W013, lambda t, h: etl.log_progress(t, 1), same)
U('clock', W013, lambda t, h: etl.clock(t), same)
U('valuecounts', W13, lambda t, h: etl.valuecounts(t, 'a'), lambda h: [('a', 'count', 'frequency')])
U('valuecounts/compound', W3, lambda t, h: etl.valuecounts(t, 'a', 'b'), lambda h: [('a', 'b', 'count', 'frequency')])
U('parsecounts', W13, lambda t, h: etl.sort(etl.parsecounts(t, 'a'), 'type'),
  lambda h: [('type', 'count', 'errors'), ('float', 0, 0), ('int', 0, 0)])   # every parser is reported, with zero counts
U('typecounts', W13, lambda t, h: etl.typecounts(t, 'a'), lambda h: [('type', 'count', 'frequency')])
U('stringpatterns', W13, lambda t, h: etl.stringpatterns(t, 'a'), lambda h: [('pattern', 'count', 'frequency')])
U('rowlengths', W013, lambda t, h: etl.rowlengths(t), lambda h: [('length', 'count')])

# special shapes: (name, header, call(t), expected)
SPECIAL = [
    ('recast', ('id', 'variable', 'value'), lambda t: etl.recast(t), [('id',)]),
    ('recast/key', ('id', 'variable', 'value'), lambda t: etl.recast(t, key='id'), [('id',)]),
    ('unjoin', ('foo', 'bar'), lambda t: etl.unjoin(t, 'bar'), ([('foo', 'bar_id')], [('id', 'bar')])),
    ('unjoin/key', ('foo', 'bar', 'baz'), lambda t: etl.unjoin(t, 'baz', key='bar'), ([('foo', 'bar')], [('bar', 'baz')])),
    ('pivot/missing', ('r', 'c', 'v', 'x'), lambda t: etl.pivot(t, 'r', 'c', 'v', never, missing=0), [('r',)]),
]

# ------------------------------------------------------------------------------------------------ unary: table -> value
# (name, widths, call(t, h), expected(h), normaliser)
ACCESS = []


def A(name, widths, call, exp, norm=None):
    ACCESS.append((name, widths, call, exp, norm))


_list = lambda v: list(v)
A('header', W013, lambda t, h: etl.header(t), lambda h: h, tuple)
A('fieldnames', W013, lambda t, h: etl.fieldnames(t), lambda h: h, tuple)
A('data', W013, lambda t, h: etl.data(t), lambda h: [], _list)
A('data/slice', W013, lambda t, h: etl.data(t, 1, 3), lambda h: [], _list)
A('values', W13, lambda t, h: etl.values(t, 'a'), lambda h: [], _list)
A('values/multi', W3, lambda t, h: etl.values(t, 'a', 'c'), lambda h: [], _list)
A('dicts', W013, lambda t, h: etl.dicts(t), lambda h: [], _list)
A('namedtuples', W013, lambda t, h: etl.namedtuples(t), lambda h: [], _list)
A('records', W013, lambda t, h: etl.records(t), lambda h: [], _list)
A('rowgroupby', W13, lambda t, h: etl.rowgroupby(t, 'a'), lambda h: [], _list)
A('rowgroupby/value', W3, lambda t, h: etl.rowgroupby(t, 'a', 'b'), lambda h: [], _list)
A('flatten', W013, lambda t, h: etl.flatten(t), lambda h: [], _list)
A('issorted', W013, lambda t, h: etl.issorted(t), lambda h: True)
A('issorted/key', W13, lambda t, h: etl.issorted(t, 'a'), lambda h: True)
A('issorted/key-reverse-strict', W13, lambda t, h: etl.issorted(t, 'a', reverse=True, strict=True), lambda h: True)
A('isunique', W13, lambda t, h: etl.isunique(t, 'a'), lambda h: True)
A('facet', W13, lambda t, h: etl.facet(t, 'a'), lambda h: {})
A('biselect', W013, lambda t, h: etl.biselect(t, never), lambda h: ([h], [h]), lambda v: tuple(lot(x) for x in v))
for _n in ('lookup', 'lookupone', 'dictlookup', 'dictlookupone', 'recordlookup', 'recordlookupone'):
    A(_n, W13, (lambda f: lambda t, h: f(t, 'a'))(getattr(etl, _n)), lambda h: {}, dict)
A('lookup/value', W3, lambda t, h: etl.lookup(t, 'a', 'b'), lambda h: {}, dict)
A('lookup/compound-dictionary', W3, lambda t, h: etl.lookup(t, ('a', 'b'), 'c', dictionary={}), lambda h: {}, dict)
A('lookupone/strict', W13, lambda t, h: etl.lookupone(t, 'a', strict=True), lambda h: {}, dict)
A('dictlookupone/strict', W13, lambda t, h: etl.dictlookupone(t, 'a', strict=True), lambda h: {}, dict)
A('recordlookupone/strict', W13, lambda t, h: etl.recordlookupone(t, 'a', strict=True), lambda h: {}, dict)
A('nrows', W013, lambda t, h: etl.nrows(t), lambda h: 0)
A('valuecount', W13, lambda t, h: etl.valuecount(t, 'a', 1)[0], lambda h: 0)
A('valuecounter', W13, lambda t, h: etl.valuecounter(t, 'a'), lambda h: {}, dict)
A('parsecounter', W13, lambda t, h: etl.parsecounter(t, 'a'), lambda h: ({'int': 0, 'float': 0}, {'int': 0, 'float': 0}),
  lambda v: tuple(dict(x) for x in v))
A('typecounter', W13, lambda t, h: etl.typecounter(t, 'a'), lambda h: {}, dict)
A('stringpatterncounter', W13, lambda t, h: etl.stringpatterncounter(t, 'a'), lambda h: {}, dict)
A('listoflists', W013, lambda t, h: etl.listoflists(t), lambda h: [list(h)])
A('listoftuples', W013, lambda t, h: etl.listoftuples(t), lambda h: [h])
A('tupleoflists', W013, lambda t, h: etl.tupleoflists(t), lambda h: (list(h),))
A('tupleoftuples', W013, lambda t, h: etl.tupleoftuples(t), lambda h: (h,))
A('columns', W013, lambda t, h: etl.columns(t), lambda h: [(f, []) for f in h], lambda v: list(v.items()))
A('facetcolumns', W13, lambda t, h: etl.facetcolumns(t, 'a'), lambda h: {}, dict)
A('typeset', W13, lambda t, h: etl.typeset(t, 'a'), lambda h: set())
A('limits', W13, lambda t, h: etl.limits(t, 'a'), lambda h: (None, None), tuple)
A('stats', W13, lambda t, h: etl.stats(t, 'a'), lambda h: (0, 0), lambda v: (v.count, v.errors))
A('look', W013, lambda t, h: etl.look(t), lambda h: True, lambda v: isinstance(repr(v), str) and isinstance(str(v), str))
A('lookall', W013, lambda t, h: etl.lookall(t), lambda h: True, lambda v: isinstance(repr(v), str))
A('lookstr', W013, lambda t, h: etl.lookstr(t), lambda h: True, lambda v: isinstance(repr(v), str) and isinstance(str(v), str))
A('lookallstr', W013, lambda t, h: etl.lookallstr(t), lambda h: True, lambda v: isinstance(repr(v), str))
A('look/styles', W013, lambda t, h: [etl.look(t, style=s, index_header=True) for s in ('grid', 'simple', 'minimal')],
  lambda h: True, lambda v: all(isinstance(repr(x), str) for x in v))
A('see', W013, lambda t, h: etl.see(t), lambda h: True, lambda v: isinstance(repr(v), str))
A('table-repr', W013, lambda t, h: etl.wrap(t), lambda h: True,
  lambda v: isinstance(repr(v), str) and isinstance(str(v), str) and isinstance(v._repr_html_(), str))


# ------------------------------------------------------------------------------------------------ several table inputs
# (name, widths, ntables, call(ts), expected(ts_rows, hs, missing)) ; ts_rows[i] = data rows of input i ([] = header-only)
NARY = []


def N(name, widths, n, call, exp, rheader=False):
    NARY.append((name, widths, n, call, exp, rheader))


def nonkey(h):
    return tuple(h[1:])


def exp_join(kind, ordered):
    """kind in inner / left / right / outer / anti / lookup ; ordered: output in ascending key order (sort-merge) or in the
    order of the preserved side (hash joins).  One side at least is header-only, so no pair of rows ever matches."""
    def f(rows, hs, missing=None):
        L, R = rows
        hl, hr = hs
        hdr = hl if kind == 'anti' else hl + nonkey(hr)
        out = []
        if kind in ('left', 'outer', 'lookup') and L:
            src = ref_sorted(L, [0]) if ordered else L
            out += [tuple(r) + (missing,) * len(nonkey(hr)) for r in src]
        if kind == 'anti' and L:
            out += [tuple(r) for r in (ref_sorted(L, [0]) if ordered else L)]
        if kind in ('right', 'outer') and R:
            src = ref_sorted(R, [0]) if ordered else R
            out += [(r[0],) + (missing,) * len(nonkey(hl)) + tuple(r[1:]) for r in src]
        return [hdr] + out
    return f


for _n, _k in (('join', 'inner'), ('leftjoin', 'left'), ('rightjoin', 'right'), ('outerjoin', 'outer'), ('antijoin', 'anti'),
               ('lookupjoin', 'lookup')):
    _f = getattr(etl, _n)
    N(_n, W13, 2, (lambda f: lambda ts: f(ts[0], ts[1], key='a'))(_f), exp_join(_k, True), True)
    N(_n + '/natural', W13, 2, (lambda f: lambda ts: f(ts[0], ts[1]))(_f), exp_join(_k, True), True)
    N(_n + '/lkey-rkey', W13, 2, (lambda f: lambda ts: f(ts[0], ts[1], lkey='a', rkey='a'))(_f), exp_join(_k, True), True)
    if _k not in ('inner', 'anti'):
        N(_n + '/missing', W13, 2, (lambda f: lambda ts: f(ts[0], ts[1], key='a', missing='NA'))(_f),
          (lambda e: lambda rows, hs: e(rows, hs, 'NA'))(exp_join(_k, True)), True)
for _n, _k in (('hashjoin', 'inner'), ('hashleftjoin', 'left'), ('hashrightjoin', 'right'), ('hashantijoin', 'anti'),
               ('hashlookupjoin', 'lookup')):
    _f = getattr(etl, _n)
    N(_n, W13, 2, (lambda f: lambda ts: f(ts[0], ts[1], key='a'))(_f), exp_join(_k, False), True)
    N(_n + '/natural', W13, 2, (lambda f: lambda ts: f(ts[0], ts[1]))(_f), exp_join(_k, False), True)


def exp_cross(rows, hs):
    return [tuple(itertools.chain(*hs))]


N('crossjoin', W013, 2, lambda ts: etl.crossjoin(*ts), exp_cross, True)
N('crossjoin/3', W013, 3, lambda ts: etl.crossjoin(*ts), exp_cross)


def exp_cat(rows, hs):
    return [hs[0]] + [tuple(r) for rs in rows for r in rs]


N('cat', W013, 2, lambda ts: etl.cat(*ts), exp_cat)
N('cat/3', W013, 3, lambda ts: etl.cat(*ts), exp_cat)
N('stack', W013, 2, lambda ts: etl.stack(*ts), exp_cat)
N('stack/3', W013, 3, lambda ts: etl.stack(*ts), exp_cat)


def exp_annex(rows, hs):
    n = max(len(r) for r in rows)
    out = [tuple(itertools.chain(*hs))]
    for i in range(n):
        row = ()
        for rs, h in zip(rows, hs):
            row += tuple(rs[i]) if i < len(rs) else (None,) * len(h)
        out.append(row)
    return out


N('annex', W013, 2, lambda ts: etl.annex(*ts), exp_annex)
N('annex/3', W013, 3, lambda ts: etl.annex(*ts), exp_annex)


def exp_mergesort(kidx):
    def f(rows, hs):
        return [hs[0]] + ref_sorted([tuple(r) for rs in rows for r in rs], kidx)
    return f


N('mergesort', W013, 2, lambda ts: etl.mergesort(*ts), exp_mergesort(None))
N('mergesort/key', W13, 2, lambda ts: etl.mergesort(*ts, key='a'), exp_mergesort([0]))
N('mergesort/3', W013, 3, lambda ts: etl.mergesort(*ts), exp_mergesort(None))
N('merge', W13, 2, lambda ts: etl.merge(*ts, key='a'), exp_mergesort([0]))   # keys unique: nothing to merge


def exp_setop(which, ordered):
    def f(rows, hs):
        a, b = rows
        if which == 'complement':
            out = ref_sorted(a) if ordered else list(a)
            return [hs[0]] + [tuple(r) for r in out]
        if which == 'intersection':
            return [hs[0]]
        added = [hs[1]] + [tuple(r) for r in ref_sorted(b)]
        subtracted = [hs[0]] + [tuple(r) for r in ref_sorted(a)]
        return (added, subtracted)
    return f


N('complement', W013, 2, lambda ts: etl.complement(*ts), exp_setop('complement', True))
N('complement/strict', W013, 2, lambda ts: etl.complement(*ts, strict=True), exp_setop('complement', True))
N('recordcomplement', W13, 2, lambda ts: etl.recordcomplement(*ts), exp_setop('complement', True))
N('hashcomplement', W013, 2, lambda ts: etl.hashcomplement(*ts), exp_setop('complement', False))
N('hashcomplement/strict', W013, 2, lambda ts: etl.hashcomplement(*ts, strict=True), exp_setop('complement', False))
N('intersection', W013, 2, lambda ts: etl.intersection(*ts), exp_setop('intersection', True))
N('hashintersection', W013, 2, lambda ts: etl.hashintersection(*ts), exp_setop('intersection', False))
N('diff', W013, 2, lambda ts: etl.diff(*ts), exp_setop('diff', True))
N('recorddiff', W13, 2, lambda ts: etl.recorddiff(*ts), exp_setop('diff', True))
N('diffheaders', W013, 2, lambda ts: etl.diffheaders(*ts), lambda rows, hs: (set(), set()))
N('diffvalues', W13, 2, lambda ts: etl.diffvalues(ts[0], ts[1], 'a'),
  lambda rows, hs: (set(r[0] for r in rows[1]) - set(r[0] for r in rows[0]),
                    set(r[0] for r in rows[0]) - set(r[0] for r in rows[1])))

# functions of the two packages that take no table (nothing to check) or cannot run here
NOT_APPLICABLE = {
    'expr': 'no table argument', 'empty': 'no table argument', 'Table': 'class', 'Record': 'class', 'Conflict': 'class',
    'dateparser': 'no table argument', 'timeparser': 'no table argument', 'datetimeparser': 'no table argument',
    'numparser': 'no table argument', 'boolparser': 'no table argument', 'randomtable': 'no table argument',
    'dummytable': 'no table argument', 'nthword': 'no table argument', 'strjoin': 'no table argument',
    'coalesce': 'no table argument',
}
INTERVAL = ('intervaljoin', 'intervalleftjoin', 'intervaljoinvalues', 'intervalantijoin', 'intervallookup',
            'intervallookupone', 'intervalrecordlookup', 'intervalrecordlookupone', 'intervalsubtract', 'facetintervallookup',
            'facetintervallookupone', 'facetintervalrecordlookup', 'facetintervalrecordlookupone', 'collapsedintervals')
for _n in INTERVAL:
    NOT_APPLICABLE[_n] = ('needs the optional package intervaltree, which is not installed in /venv: the entries could not '
                          'be validated, so the interval operators are NOT covered by this module')

# the operators exported by petl.transform / petl.util on the pinned tree; the coverage group checks that each of them is
# in the catalogue (or declared not applicable).  Names exported by a later tree that are not in this list are ignored
# (an operator added later is outside the stated scope, not a violation).
PINNED_EXPORTS = """
Conflict Record Table addcolumn addfield addfields addfieldusingcontext addrownumbers aggregate annex antijoin
biselect boolparser capture cat clock coalesce collapsedintervals columns complement conflicts convert
convertall convertnumbers crossjoin cut cutout data dateparser datetimeparser dictlookup dictlookupone dicts
diff diffheaders diffvalues distinct dummytable duplicates empty expr extendheader facet facetcolumns
facetintervallookup facetintervallookupone facetintervalrecordlookup facetintervalrecordlookupone fieldmap
fieldnames filldown fillleft fillright flatten fold format formatall groupcountdistinctvalues groupselectfirst
groupselectlast groupselectmax groupselectmin hashantijoin hashcomplement hashintersection hashjoin
hashleftjoin hashlookupjoin hashrightjoin head header interpolate interpolateall intersection intervalantijoin
intervaljoin intervaljoinvalues intervalleftjoin intervallookup intervallookupone intervalrecordlookup
intervalrecordlookupone intervalsubtract issorted isunique join leftjoin limits listoflists listoftuples
log_progress look lookall lookallstr lookstr lookup lookupjoin lookupone melt merge mergeduplicates mergesort
movefield namedtuples nrows nthword numparser outerjoin parsecounter parsecounts pivot prefixheader progress
pushheader randomtable recast recordcomplement recorddiff recordlookup recordlookupone records rename replace
replaceall rightjoin rowgroupby rowgroupmap rowlengths rowlenselect rowmap rowmapmany rowreduce rowslice
search searchcomplement see select selectcontains selecteq selectfalse selectge selectgt selectin selectis
selectisinstance selectisnot selectle selectlt selectne selectnone selectnotin selectnotnone selectop
selectrangeclosed selectrangeopen selectrangeopenleft selectrangeopenright selecttrue selectusingcontext
setheader skip skipcomments sort sortheader split splitdown stack stats stringpatterncounter stringpatterns
strjoin sub suffixheader tail timeparser transpose tupleoflists tupleoftuples typecounter typecounts typeset
unflatten unique unjoin unpack unpackdict update validate valuecount valuecounter valuecounts values wrap
""".split()

UNARY_BY = dict((e[0], e) for e in UNARY)
ACCESS_BY = dict((e[0], e) for e in ACCESS)
SPECIAL_BY = dict((e[0], e) for e in SPECIAL)
NARY_BY = dict((e[0], e) for e in NARY)


def run(opname, where, call, w=None):
    """failure key: <operator form>[/<which inputs are header-only>][/zero-field-header]/<exception type>"""
    try:
        return call()
    except Exception as e:
        z = '/zero-field-header' if w == 0 else ''
        raise Fail('%s%s%s/%s' % (opname, where, z, type(e).__name__), 'no exception', repr(e))


def materialise(v):
    if isinstance(v, tuple) and v and all(hasattr(x, '__iter__') and not isinstance(x, (str, set, dict)) for x in v):
        return tuple(lot(x) for x in v)
    return lot(v)


# ------------------------------------------------------------------------------------------------ groups

def _unary_inputs(tier, seed):
    for name, widths, _, _ in UNARY:
        for w in widths:
            for form in FORMS:
                yield (name, w, form)


@group('unary', _unary_inputs)
def chk_unary(inp):
    name, w, form = inp
    _, _, call, exp = UNARY_BY[name]
    h = Hd(w)
    got = run(name, '', lambda: lot(call(empty_table(h, form), h)), w)
    e = [tuple(r) for r in exp(h)]
    expect(got == e, name + '/zero-row-result', e, got)
    # a second pass over the same view gives the same (the header-only source is exhausted at once on every pass)
    got2 = run(name, '/second-pass', lambda: (lambda v: (lot(v), lot(v))[1])(call(empty_table(h, form), h)), w)
    expect(got2 == e, name + '/second-pass/zero-row-result', e, got2)


def _special_inputs(tier, seed):
    for name, _, _, _ in SPECIAL:
        for form in FORMS:
            yield (name, form)


@group('special-shape', _special_inputs)
def chk_special(inp):
    name, form = inp
    _, h, call, exp = SPECIAL_BY[name]

    def go():
        v = call(empty_table(h, form))
        return materialise(v) if not isinstance(v, (bool, dict)) else v
    got = run(name, '', go)
    expect(got == exp, name + '/zero-row-result', exp, got)


def _access_inputs(tier, seed):
    for name, widths, _, _, _ in ACCESS:
        for w in widths:
            for form in FORMS:
                yield (name, w, form)


@group('accessor', _access_inputs)
def chk_access(inp):
    name, w, form = inp
    _, _, call, exp, norm = ACCESS_BY[name]
    h = Hd(w)

    def go():
        v = call(empty_table(h, form), h)
        return norm(v) if norm else v
    got = run(name, '', go, w)
    e = exp(h)
    expect(got == e, name + '/zero-row-result', e, got)


def _nary_inputs(tier, seed):
    for name, widths, n, _, _, _ in NARY:
        for w in widths:
            positions = [p for k in range(1, n + 1) for p in itertools.combinations(range(n), k)]
            for empties in positions:
                # the None-key variant only where a single input has rows (two non-empty inputs with None and int keys
                # would exercise the mixed-type merge, which is C05's subject, not the header-only handling)
                variants = ('plain', 'nonekey') if (n - len(empties) == 1 and w > 0) else ('plain',)
                for variant in variants:
                    for form in FORMS:
                        yield (name, w, empties, variant, form)


def where_tag(n, empties):
    if n == 2:
        return {(0,): 'left', (1,): 'right', (0, 1): 'both'}[tuple(empties)] + '-header-only'
    return 'header-only-at-' + ''.join(str(i) for i in empties)


@group('several-inputs', _nary_inputs)
def chk_nary(inp):
    name, w, empties, variant, form = inp
    _, _, n, call, exp, rheader = NARY_BY[name]
    hs, ts, rows = [], [], []
    for i in range(n):
        h = Rh(w) if (rheader and i == 1) else Hd(w)
        if name.startswith('crossjoin') and w:
            h = tuple('%s%d' % (f, i) for f in h)
        hs.append(h)
        if i in empties:
            ts.append(empty_table(h, form))
            rows.append([])
        else:
            r = other_rows(w, variant, i)
            ts.append([h] + r)
            rows.append(r)
    tag = '/' + where_tag(n, empties)
    raw = name.split('/')[0] in ('diffheaders', 'diffvalues')
    got = run(name, tag, lambda: call(ts) if raw else materialise(call(ts)), w)
    e = exp(rows, hs)
    if got != e and variant == 'nonekey':
        # the same call with ordinary keys passes (checked by the 'plain' variant): the None-key rows are mishandled
        lost = isinstance(got, list) and isinstance(e, list) and [r for r in e if r not in got]
        if lost and all(r and r[0] is None for r in lost):
            raise Fail(name + tag + '/none-key-rows-dropped', e, got)
    expect(got == e, name + tag + '/wrong-result', e, got)


def _coverage_inputs(tier, seed):
    yield ('catalogue',)


@group('coverage', _coverage_inputs)
def chk_coverage(inp):
    """every operator that petl.transform / petl.util export on the pinned tree is in the catalogue or declared not
    applicable (a self-check of the catalogue: the quantifier 'all public operators' is only as good as this list)"""
    covered = set(e[0].split('/')[0] for e in UNARY + ACCESS + SPECIAL + NARY)
    missing = sorted(n for n in PINNED_EXPORTS if n not in covered and n not in NOT_APPLICABLE)
    expect(not missing, 'operator-not-in-catalogue', [], missing)
    gone = sorted(n for n in covered if not (hasattr(etl, n) or n in ('cache', 'table-repr')))
    expect(not gone, 'catalogue-entry-without-operator', [], gone)
