"""C08 bounded stand-in: complement / intersection / diff / recordcomplement / recorddiff / hashcomplement / hashintersection
on the real petl against collections.Counter arithmetic on the input rows, the partition law a = (a - b) + (a & b), and
"hash variants keep a's order"."""
import itertools, random
from collections import Counter
import petl as etl
from .common import group, expect, Fail

RULE = ('one case = (a, b, strict): rectangular tables over the cells {None, 0, 1, "a"} (every equality / order / type pattern of '
        'two cells), 1 or 2 fields (also a 1-field against a 2-field table), every sequence of <= N rows per side (duplicates on '
        'either side, header-only sides, b exhausted first / last), field names of b different from a; record operations: '
        "b's header a permutation of a's (2 fields: identity, swap; 3 fields: all six incl. both rotations) with b's cells "
        'permuted accordingly; distinct = distinct (tables, strict)')
BOUND = {'quick': '1 field: N = 3 exhaustive; 2 fields: N = 2 exhaustive over {None,0,"a"} + 2500 seeded pairs with N = 3 over all '
                  'four cells; record ops: 2 fields N = 2 exhaustive over {None,0,"a"} (swap), 3 fields N = 1 exhaustive over '
                  '{None,0,1} x 6 permutations + 4000 seeded cases with <= 3 rows',
         'thorough': '1 field: N = 4 exhaustive; 2 fields: N = 2 exhaustive over four cells + 60000 seeded pairs with N = 3..4; '
                     'record ops: as quick with four cells for 2 fields and 60000 seeded 3-field cases'}

CELLS = (None, 0, 1, 'a')
C3 = (None, 0, 'a')


def seqs(alpha, n):
    for m in range(n + 1):
        for s in itertools.product(alpha, repeat=m):
            yield s


def rows_of(t):
    return [tuple(r) for r in t[1:]]


def strict_minus(ca, cb):
    return Counter(dict((r, n) for r, n in ca.items() if r not in cb))


def minus(ca, cb, strict):
    return strict_minus(ca, cb) if strict else ca - cb


def is_subsequence(xs, ys):
    it = iter(ys)
    return all(any(x == y for y in it) for x in xs)


def run(name, fn, *args, **kw):
    """-> (header, rows) of one petl result; exceptions become a named failure"""
    try:
        out = [tuple(r) for r in fn(*args, **kw)]
    except Exception as e:
        raise Fail('%s/raised-%s' % (name, type(e).__name__), None, repr(e))
    expect(len(out) >= 1, name + '/header', 'a header row', out)
    return out[0], out[1:]


def check_against(name, hdr, rows, exp_hdr, exp_counter):
    expect(hdr == tuple(exp_hdr), name + '/header', tuple(exp_hdr), hdr)
    expect(Counter(rows) == exp_counter, name + '/rows', sorted(exp_counter.elements(), key=repr), rows)


def _hdr(w, names):
    return tuple(names[:w])


def _mk(w, body, names):
    return [_hdr(w, names)] + [tuple(r) for r in body]


def _setops_inputs(tier, seed):
    n1 = 4 if tier == 'thorough' else 3
    t1 = [list(b) for b in seqs([(c,) for c in CELLS], n1)]
    cells2 = CELLS if tier == 'thorough' else C3
    t2 = [list(b) for b in seqs(list(itertools.product(cells2, repeat=2)), 2)]
    for a, b in itertools.product(t1, t1):
        for s in (False, True):
            yield (_mk(1, a, 'fg'), _mk(1, b, 'xy'), s)
    for a, b in itertools.product(t2, t2):
        for s in (False, True):
            yield (_mk(2, a, 'fg'), _mk(2, b, 'xy'), s)
    # different widths: rows can never be equal
    s1 = [list(b) for b in seqs([(c,) for c in C3], 2)]
    s2 = [list(b) for b in seqs(list(itertools.product((None, 0), repeat=2)), 2)]
    for a, b in itertools.product(s1, s2):
        for s in (False, True):
            yield (_mk(1, a, 'fg'), _mk(2, b, 'xy'), s)
            yield (_mk(2, b, 'fg'), _mk(1, a, 'xy'), s)
    # larger 2-field tables: seeded; rows drawn from a small pool so that duplicates and matches are frequent
    rnd = random.Random(seed)
    allrows = list(itertools.product(CELLS, repeat=2))
    hi = 4 if tier == 'thorough' else 3
    for _ in range(60000 if tier == 'thorough' else 2500):
        pool = rnd.sample(allrows, rnd.choice((1, 2, 3)))
        a = [rnd.choice(pool) for _ in range(rnd.choice((hi - 1, hi, hi)))]
        b = [rnd.choice(pool) for _ in range(rnd.choice((1, hi - 1, hi, hi)))]
        yield (_mk(2, a, 'fg'), _mk(2, b, 'xy'), rnd.random() < 0.5)


@group('setops', _setops_inputs)
def setops(inp):
    a, b, strict = inp
    a, b = [tuple(r) for r in a], [tuple(r) for r in b]
    ha, hb = a[0], b[0]
    ra, rb = rows_of(a), rows_of(b)
    ca, cb = Counter(ra), Counter(rb)
    sfx = '-strict' if strict else ''
    h, comp = run('complement' + sfx, etl.complement, list(a), list(b), strict=strict)
    check_against('complement' + sfx, h, comp, ha, minus(ca, cb, strict))
    h, inter = run('intersection', etl.intersection, list(a), list(b))
    check_against('intersection', h, inter, ha, ca & cb)
    if not strict:
        expect(Counter(comp) + Counter(inter) == ca, 'partition', ra, comp + inter)
    try:
        added, subtracted = etl.diff(list(a), list(b), strict=strict)
    except Exception as e:
        raise Fail('diff%s/raised-%s' % (sfx, type(e).__name__), None, repr(e))
    h, rows = run('diff%s/added' % sfx, lambda: added)
    check_against('diff%s/added' % sfx, h, rows, hb, minus(cb, ca, strict))
    h, rows = run('diff%s/subtracted' % sfx, lambda: subtracted)
    check_against('diff%s/subtracted' % sfx, h, rows, ha, minus(ca, cb, strict))
    h, hcomp = run('hashcomplement' + sfx, etl.hashcomplement, list(a), list(b), strict=strict)
    check_against('hashcomplement' + sfx, h, hcomp, ha, minus(ca, cb, strict))
    expect(is_subsequence(hcomp, ra), 'hashcomplement%s/order' % sfx, ra, hcomp)
    h, hinter = run('hashintersection', etl.hashintersection, list(a), list(b))
    check_against('hashintersection', h, hinter, ha, ca & cb)
    expect(is_subsequence(hinter, ra), 'hashintersection/order', ra, hinter)
    if not strict:
        expect(Counter(hcomp) + Counter(hinter) == ca, 'hash-partition', ra, hcomp + hinter)


# ------------------------------------------------------------------------------------------- record operations

def permute(aligned_rows, ha, hb):
    """rows given in a's field order -> the same records laid out in b's field order"""
    idx = [ha.index(f) for f in hb]
    return [tuple(r[i] for i in idx) for r in aligned_rows]


def _record_inputs(tier, seed):
    h2 = ('f0', 'f1')
    cells2 = CELLS if tier == 'thorough' else C3
    t2 = [list(b) for b in seqs(list(itertools.product(cells2, repeat=2)), 2)]
    for a, b in itertools.product(t2, t2):
        for s in (False, True):
            yield ([h2] + a, [('f1', 'f0')] + permute(b, h2, ('f1', 'f0')), s)
    s2 = [list(b) for b in seqs(list(itertools.product((None, 0), repeat=2)), 2)]
    for a, b in itertools.product(s2, s2):
        yield ([h2] + a, [h2] + b, False)
        yield ([h2] + a, [h2] + b, True)
    h3 = ('f0', 'f1', 'f2')
    perms = list(itertools.permutations(h3))
    t3 = [list(b) for b in seqs(list(itertools.product((None, 0, 1), repeat=3)), 1)]
    for hb in perms:
        for a, b in itertools.product(t3, t3):
            for s in (False, True):
                yield ([h3] + a, [hb] + permute(b, h3, hb), s)
    rnd = random.Random(seed + 1)
    all3 = list(itertools.product(CELLS, repeat=3))
    for _ in range(60000 if tier == 'thorough' else 4000):
        pool = rnd.sample(all3, rnd.choice((1, 2, 3)))
        a = [rnd.choice(pool) for _ in range(rnd.choice((1, 2, 3)))]
        b = [rnd.choice(pool) for _ in range(rnd.choice((1, 2, 3)))]
        hb = rnd.choice(perms)
        yield ([h3] + a, [hb] + permute(b, h3, hb), rnd.random() < 0.5)


def align(rows, hfrom, hto):
    """records re-laid out by field name (dict per record)"""
    out = []
    for r in rows:
        d = dict(zip(hfrom, r))
        out.append(tuple(d[f] for f in hto))
    return out


@group('recordops', _record_inputs)
def recordops(inp):
    a, b, strict = inp
    a, b = [tuple(r) for r in a], [tuple(r) for r in b]
    ha, hb = a[0], b[0]
    ra, rb = rows_of(a), rows_of(b)
    sfx = '-strict' if strict else ''
    kind = 'same-order' if ha == hb else ('swap' if len(ha) == 2 or sum(x != y for x, y in zip(ha, hb)) == 2 else 'rotation')
    # a - b in a's layout; b - a in b's layout
    exp_sub = minus(Counter(ra), Counter(align(rb, hb, ha)), strict)
    exp_add = minus(Counter(rb), Counter(align(ra, ha, hb)), strict)
    name = 'recordcomplement%s/%s' % (sfx, kind)
    h, rows = run(name, etl.recordcomplement, list(a), list(b), strict=strict)
    check_against(name, h, rows, ha, exp_sub)
    h, rows = run(name + '/reversed', etl.recordcomplement, list(b), list(a), strict=strict)
    check_against(name + '/reversed', h, rows, hb, exp_add)
    name = 'recorddiff%s/%s' % (sfx, kind)
    try:
        added, subtracted = etl.recorddiff(list(a), list(b), strict=strict)
    except Exception as e:
        raise Fail('%s/raised-%s' % (name, type(e).__name__), None, repr(e))
    h, rows = run(name + '/added', lambda: added)
    check_against(name + '/added', h, rows, hb, exp_add)
    h, rows = run(name + '/subtracted', lambda: subtracted)
    check_against(name + '/subtracted', h, rows, ha, exp_sub)
