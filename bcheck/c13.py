"""C13 bounded stand-in: selections return exactly the satisfying rows, complement is the exact rest.

Every selector of the select / selectop family is run on the real petl for all small tables (mixed-type cells, None,
ragged rows so that the selected field is missing in some rows) x reference values (None, equal / unequal values,
values of another type) x complement in (False, True) and compared with the input rows filtered, in input order, by
the *documented* predicate evaluated under the C04 ordering (ref_lt / ref_eq), a missing cell being read as `missing`.
rowslice / head / tail / skip are compared with itertools.islice / list slicing for all slice argument triples."""
import itertools, operator, random, re, traceback
from decimal import Decimal
from datetime import date
import petl as etl
from . import common
from .common import group, expect, Fail
_mine = dict(common.GROUPS)
from .c04 import ref_lt, ref_eq      # importing c04 registers C04's groups: keep only this module's
for _k in [k for k in common.GROUPS if k not in _mine]:
    del common.GROUPS[_k]

RULE = ('one case = (table, field, reference value(s)) ; each case runs every selector of its family with complement '
        'False and True and compares the returned rows (header + data rows, in order) with the input rows filtered by '
        'the documented predicate under the C04 ordering. Tables: width 2 (f0 = row number, f1 = the tested cell) and '
        'width 1, rows full / short (tested cell missing) / long; cells None, ints, strs, tuple, list (+ float, bytes, '
        'Decimal, date in thorough); distinct = distinct (group, input) pairs')
BOUND = {'quick': 'all tables <= 2 rows over 7 cell values x 3 row shapes (plus a seeded sample of 3-row tables) x 7 '
                  'reference values (x 7 for ranges) x both field forms; slices: all (start, stop, step) in '
                  '([0,4] u None)^3, step >= 1, tables of 0..5 rows',
         'thorough': 'all tables <= 3 rows over 10 cell values x 3 row shapes x 10 reference values; ranges over all '
                     'pairs; slices as quick with tables of 0..6 rows'}

CELLS_Q = [None, 0, 1, 'a', 'b', (0,), [1, 0]]
CELLS_T = CELLS_Q + [1.5, b'a', date(2020, 1, 1)]
# no list/tuple pair of equal content in cells x refs: on these alphabets ref_eq coincides with Python ==
REFS_Q = [None, 0, 1, 'a', (0,), [1, 0], b'a']
REFS_T = REFS_Q + [1.5, 'b', date(2020, 1, 1), (0, 0), Decimal('1')]


# ------------------------------------------------------------------------------------------------- helpers

def mat(thunk, sub):
    """materialise a petl view as list of tuples; an exception becomes failure key  <sub>/<ExceptionType>"""
    try:
        return [tuple(r) for r in thunk()]
    except Fail:
        raise
    except Exception as e:
        raise Fail('%s/%s' % (sub, type(e).__name__), None, repr(e), traceback.format_exc()[-800:])


def cell(row, j, missing=None):
    return row[j] if j < len(row) else missing


def fidx(hdr, field):
    return field if isinstance(field, int) else list(hdr).index(field)


def filt(table, pred):
    """the specification of a selection: header, then the data rows satisfying pred, in input order"""
    return [tuple(table[0])] + [tuple(r) for r in table[1:] if pred(r)]


def both(name, table, pred, call):
    """call(complement) -> petl view; compared with the reference for complement False and True"""
    for comp in (False, True):
        want = filt(table, (lambda r: not pred(r)) if comp else pred)
        sub = name + ('/complement' if comp else '')
        got = mat(lambda: call(comp), sub)
        expect(got == want, sub, want, got)


def le(a, b):
    return ref_lt(a, b) or ref_eq(a, b)


def row_variants(i, cells, width):
    if width == 2:
        out = [(i, c) for c in cells]
        out.append((i,))
        out += [(i, None, 'x'), (i, 1, 'x')]
    else:
        out = [(c,) for c in cells]
        out.append(())
        out += [(None, 'x'), (1, 'x')]
    return out


def gen_tables(cells, maxrows, width=2):
    hdr = ('f0', 'f1')[:width]
    for n in range(maxrows + 1):
        for body in itertools.product(*[row_variants(i, cells, width) for i in range(n)]):
            yield [hdr] + list(body)


def scope_tables(tier, seed, cells_q=CELLS_Q, cells_t=CELLS_T, extra3=120):
    """(table, field) pairs"""
    out = []
    if tier == 'thorough':
        for t in gen_tables(cells_t, 3, 2):
            out.append((t, 'f1'))
        for t in gen_tables(cells_q, 2, 2):
            out.append((t, 1))
        for t in gen_tables(cells_q, 3, 1):
            out.append((t, 'f0'))
    else:
        for t in gen_tables(cells_q, 2, 2):
            out.append((t, 'f1'))
            out.append((t, 1))
        for t in gen_tables(cells_q, 2, 1):
            out.append((t, 'f0'))
            out.append((t, 0))
        rnd = random.Random(seed)
        for _ in range(extra3):
            out.append(([('f0', 'f1')] + [rnd.choice(row_variants(i, cells_q, 2)) for i in range(3)], 'f1'))
    return out


def refs(tier):
    return REFS_T if tier == 'thorough' else REFS_Q


# ------------------------------------------------------------------------------------- comparison selectors

def _cmp_inputs(tier, seed):
    for t, f in scope_tables(tier, seed):
        for v in refs(tier):
            yield (t, f, v)


@group('cmp', _cmp_inputs)
def chk_cmp(inp):
    table, field, v = inp
    j = fidx(table[0], field)
    c = lambda r: cell(r, j)
    spec = [
        ('selecteq', etl.selecteq, lambda r: ref_eq(c(r), v)),
        ('selectne', etl.selectne, lambda r: not ref_eq(c(r), v)),
        ('selectlt', etl.selectlt, lambda r: ref_lt(c(r), v)),
        ('selectle', etl.selectle, lambda r: le(c(r), v)),
        ('selectgt', etl.selectgt, lambda r: ref_lt(v, c(r))),
        ('selectge', etl.selectge, lambda r: not ref_lt(c(r), v)),
    ]
    for name, fn, pred in spec:
        both(name, table, pred, lambda comp, fn=fn: fn(table, field, v, complement=comp))
    both('selectop', table, lambda r: ref_eq(c(r), v),
         lambda comp: etl.selectop(table, field, v, operator.eq, complement=comp))
    # lt / ge and le / gt are exact complements of each other (no row lost, none in both)
    lt = mat(lambda: etl.selectlt(table, field, v), 'selectlt')
    ge = mat(lambda: etl.selectge(table, field, v, complement=True), 'selectge/complement')
    expect(lt == ge, 'lt-ge-complement', lt, ge)
    gt = mat(lambda: etl.selectgt(table, field, v), 'selectgt')
    lec = mat(lambda: etl.selectle(table, field, v, complement=True), 'selectle/complement')
    expect(gt == lec, 'le-gt-complement', gt, lec)


def _range_inputs(tier, seed):
    rs = refs(tier)
    for t, f in scope_tables(tier, seed, extra3=40):
        if tier != 'thorough' and f in (1, 0):
            continue
        for lo in rs:
            for hi in rs:
                yield (t, f, lo, hi)


@group('range', _range_inputs)
def chk_range(inp):
    table, field, lo, hi = inp
    j = fidx(table[0], field)
    c = lambda r: cell(r, j)
    spec = [
        # documented: openleft  minv <= v <  maxv ; openright minv <  v <= maxv
        #             open      minv <= v <= maxv ; closed    minv <  v <  maxv
        ('selectrangeopenleft', etl.selectrangeopenleft, lambda r: le(lo, c(r)) and ref_lt(c(r), hi)),
        ('selectrangeopenright', etl.selectrangeopenright, lambda r: ref_lt(lo, c(r)) and le(c(r), hi)),
        ('selectrangeopen', etl.selectrangeopen, lambda r: le(lo, c(r)) and le(c(r), hi)),
        ('selectrangeclosed', etl.selectrangeclosed, lambda r: ref_lt(lo, c(r)) and ref_lt(c(r), hi)),
    ]
    for name, fn, pred in spec:
        both(name, table, pred, lambda comp, fn=fn: fn(table, field, lo, hi, complement=comp))


CONTAINERS = [[], [None], [0, 'a'], (None, 1, (0,)), [[1, 0], 'b'], (b'a', 1.5)]


def _member_inputs(tier, seed):
    for t, f in scope_tables(tier, seed):
        for cont in CONTAINERS:
            yield (t, f, cont)


@group('member', _member_inputs)
def chk_member(inp):
    table, field, cont = inp
    j = fidx(table[0], field)
    isin = lambda r: any(ref_eq(cell(r, j), x) for x in cont)
    both('selectin', table, isin, lambda comp: etl.selectin(table, field, cont, complement=comp))
    both('selectnotin', table, lambda r: not isin(r), lambda comp: etl.selectnotin(table, field, cont, complement=comp))


def _member_special_inputs(tier, seed):
    # a string as the container (substring semantics of `in`) over text cells; unhashable cells against a hashable container
    yield ([('f',), ('a',), ('ab',), ('abc',), ('d',), ('',), ('ca',)], 'f', 'abc')
    yield ([('f', 'g'), ('bc', 1), ('x', 2)], 'f', 'abc')
    yield ([('f',), ([1],), (1,), ([],), ((1,),)], 'f', (1, 2, (1,)))
    yield ([('f', 'g'), ({'k': 1}, 0), (2, 1)], 'f', [2, 3])


@group('member.special', _member_special_inputs)
def chk_member_special(inp):
    table, field, cont = inp
    j = fidx(table[0], field)
    isin = lambda r: cell(r, j) in cont                  # the documented test: `value in container`, whatever the container is
    both('selectin', table, isin, lambda comp: etl.selectin(table, field, cont, complement=comp))
    both('selectnotin', table, lambda r: not isin(r), lambda comp: etl.selectnotin(table, field, cont, complement=comp))


CELLS_U = [None, 0, 1, '', 'a', (), (0,), [], False]


def _unary_inputs(tier, seed):
    return scope_tables(tier, seed, cells_q=CELLS_U, cells_t=CELLS_U + [0.0, b'', [0]])


@group('unary', _unary_inputs)
def chk_unary(inp):
    table, field = inp
    j = fidx(table[0], field)
    c = lambda r: cell(r, j)
    both('selectnone', table, lambda r: c(r) is None, lambda comp: etl.selectnone(table, field, complement=comp))
    both('selectnotnone', table, lambda r: c(r) is not None,
         lambda comp: etl.selectnotnone(table, field, complement=comp))
    both('selecttrue', table, lambda r: bool(c(r)), lambda comp: etl.selecttrue(table, field, complement=comp))
    both('selectfalse', table, lambda r: not bool(c(r)), lambda comp: etl.selectfalse(table, field, complement=comp))


# identity: the cells and the reference value are tokens, turned into objects inside the check: '@L1' / '@L2' are two
# distinct but equal list objects, None / True are the singletons
ID_TOKENS = [None, True, '@L1', '@L2']


def _identity_inputs(tier, seed):
    n = 3 if tier == 'thorough' else 2
    for t in gen_tables(ID_TOKENS, n, 2):
        for v in ID_TOKENS:
            yield (t, 'f1', v)


@group('identity', _identity_inputs)
def chk_identity(inp):
    ttable, field, tv = inp
    objs = {'@L1': [0], '@L2': [0]}
    dec = lambda x: objs.get(x, x) if isinstance(x, str) else x
    table = [ttable[0]] + [tuple(dec(x) if k == 1 else x for k, x in enumerate(r)) for r in ttable[1:]]
    v = dec(tv)
    # specification on tokens: same token <=> same object ; a missing cell reads as None
    want_is = [tuple(table[0])] + [table[i + 1] for i, r in enumerate(ttable[1:]) if cell(r, 1) == tv and
                                   type(cell(r, 1)) is type(tv)]
    want_not = [tuple(table[0])] + [table[i + 1] for i, r in enumerate(ttable[1:]) if not (cell(r, 1) == tv and
                                    type(cell(r, 1)) is type(tv))]
    for comp in (False, True):
        sub = '/complement' if comp else ''
        got = mat(lambda: etl.selectis(table, field, v, complement=comp), 'selectis' + sub)
        w = want_not if comp else want_is
        expect(got == w and all(a is b for ra, rb in zip(got[1:], w[1:]) for a, b in zip(ra, rb)),
               'selectis' + sub, w, got)
        got = mat(lambda: etl.selectisnot(table, field, v, complement=comp), 'selectisnot' + sub)
        w = want_is if comp else want_not
        expect(got == w and all(a is b for ra, rb in zip(got[1:], w[1:]) for a, b in zip(ra, rb)),
               'selectisnot' + sub, w, got)


TYPES = {'int': int, 'str': str, 'NoneType': type(None), 'bool': bool, 'tuple': tuple, 'float': float,
         'numbers': (int, float), 'seq': (tuple, list), 'object': object}


def _isinstance_inputs(tier, seed):
    cells = [None, 0, True, 1.5, 'a', (0,), [0]]
    names = sorted(TYPES)
    for t, f in scope_tables(tier, seed, cells_q=cells, cells_t=cells, extra3=60):
        for tn in names:
            yield (t, f, tn)


@group('isinstance', _isinstance_inputs)
def chk_isinstance(inp):
    table, field, tn = inp
    typ = TYPES[tn]
    j = fidx(table[0], field)
    both('selectisinstance', table, lambda r: isinstance(cell(r, j), typ),
         lambda comp: etl.selectisinstance(table, field, typ, complement=comp))


def _contains_inputs(tier, seed):
    # selectcontains is documented for cells that are containers; a missing cell (None) is not one: no short rows
    cells = ['', 'a', 'ab', 'b', ('a',), ['b', 'a']]
    n = 3 if tier == 'thorough' else 2
    for k in range(n + 1):
        for body in itertools.product(*[[(i, c) for c in cells] + [(i, 'ab', 'x'), (i, ('b',), 'a')]
                                        for i in range(k)]):
            t = [('f0', 'f1')] + list(body)
            for v in ['a', 'b', 'ab', '']:
                for f in ('f1', 1):
                    yield (t, f, v)


@group('contains', _contains_inputs)
def chk_contains(inp):
    table, field, v = inp
    j = fidx(table[0], field)

    def pred(r):
        c = r[j]
        if isinstance(c, str):
            return c.find(v) >= 0
        return any(x == v for x in c)
    both('selectcontains', table, pred, lambda comp: etl.selectcontains(table, field, v, complement=comp))


# -------------------------------------------------------------------------------------- row-level selections

def ragged_tables(maxrows, widths=(0, 1, 2)):
    """tables whose cells are (row, col) numbers, every combination of row lengths in {w-1, w, w+1}"""
    for w in widths:
        hdr = ('f0', 'f1', 'f2')[:w]
        lens = [l for l in (w - 1, w, w + 1) if l >= 0]
        for n in range(maxrows + 1):
            for ls in itertools.product(lens, repeat=n):
                yield [hdr] + [tuple(10 * i + k for k in range(l)) for i, l in enumerate(ls)]


def _rowlen_inputs(tier, seed):
    for t in ragged_tables(4 if tier == 'thorough' else 3):
        for n in range(0, 5):
            yield (t, n)


@group('rowlen', _rowlen_inputs)
def chk_rowlen(inp):
    table, n = inp
    both('rowlenselect', table, lambda r: len(r) == n, lambda comp: etl.rowlenselect(table, n, complement=comp))


# row predicates are described by tokens and built inside the check
def build_rowpred(tok, hdr, missing):
    """-> (petl argument (callable or expression string), reference predicate over the raw row)"""
    kind = tok[0]
    if kind == 'eq':          # record access by name / index / attribute
        _, how, j, v = tok
        name = hdr[j]
        if how == 'name':
            arg = lambda rec: rec[name] == v
        elif how == 'index':
            arg = lambda rec: rec[j] == v
        else:
            arg = lambda rec: getattr(rec, name) == v
        return arg, (lambda r: ref_eq(cell(r, j, missing), v))
    if kind == 'expr-eq':     # expression string
        _, j, v = tok
        return '{%s} == %r' % (hdr[j], v), (lambda r: ref_eq(cell(r, j, missing), v))
    if kind == 'expr-none':
        _, j = tok
        return '{%s} is None' % hdr[j], (lambda r: cell(r, j, missing) is None)
    if kind == 'expr-or':
        _, v0, v1 = tok
        return ('{%s} == %r or {%s} == %r' % (hdr[0], v0, hdr[1], v1),
                lambda r: ref_eq(cell(r, 0, missing), v0) or ref_eq(cell(r, 1, missing), v1))
    if kind == 'len':
        _, n = tok
        return (lambda rec: len(rec) == n), (lambda r: len(r) == n)
    if kind == 'const':
        _, b = tok
        return (lambda rec: b), (lambda r: b)
    raise ValueError(tok)


ROWPREDS = [('eq', 'name', 1, None), ('eq', 'index', 1, 'a'), ('eq', 'attr', 1, 0), ('eq', 'name', 1, 'M'),
            ('eq', 'name', 0, 0), ('expr-eq', 1, 'a'), ('expr-eq', 1, 'M'), ('expr-eq', 0, 1), ('expr-none', 1),
            ('expr-or', 0, 'a'), ('len', 2), ('len', 1), ('const', True), ('const', False), ('const', 0),
            ('const', 'x')]


def _rowsel_inputs(tier, seed):
    cells = [None, 0, 'a', 'M']
    n = 3 if tier == 'thorough' else 2
    for t in gen_tables(cells, n, 2):
        for tok in ROWPREDS:
            for missing in (None, 'M'):
                yield (t, tok, missing)


@group('select.row', _rowsel_inputs)
def chk_rowsel(inp):
    table, tok, missing = inp
    arg, pred = build_rowpred(tok, table[0], missing)
    kind = 'select.expr' if isinstance(arg, str) else 'select.callable'
    if missing is None:
        both(kind, table, pred, lambda comp: etl.select(table, arg, complement=comp))
    both(kind + '/missing', table, pred, lambda comp: etl.select(table, arg, complement=comp, missing=missing))
    # biselect = (selection, exact rest)
    try:
        t1, t2 = etl.biselect(table, arg, missing=missing)
    except Exception as e:
        raise Fail('biselect/' + type(e).__name__, None, repr(e))
    g1, g2 = mat(lambda: t1, 'biselect'), mat(lambda: t2, 'biselect')
    w1, w2 = filt(table, pred), filt(table, lambda r: not pred(r))
    expect(g1 == w1, 'biselect/selected', w1, g1)
    expect(g2 == w2, 'biselect/rest', w2, g2)


FIELDPREDS = ['isnone', 'isM', ('eq', 0), ('eq', 'a'), ('lt', 'a'), 'truthy', 'always', 'never']


def build_fieldpred(tok):
    if tok == 'isnone':
        return lambda v: v is None
    if tok == 'isM':
        return lambda v: v == 'M'
    if tok == 'truthy':
        return lambda v: v       # a truthy / falsy non-bool result
    if tok == 'always':
        return lambda v: 1
    if tok == 'never':
        return lambda v: None
    if tok[0] == 'eq':
        return lambda v: ref_eq(v, tok[1])
    if tok[0] == 'lt':
        return lambda v: ref_lt(v, tok[1])
    raise ValueError(tok)


def _fieldsel_inputs(tier, seed):
    cells = [None, 0, 'a', 'M', 'b']
    for t, f in scope_tables(tier, seed, cells_q=cells, cells_t=cells, extra3=60):
        for tok in FIELDPREDS:
            for missing in (None, 'M'):
                yield (t, f, tok, missing)


@group('select.field', _fieldsel_inputs)
def chk_fieldsel(inp):
    table, field, tok, missing = inp
    j = fidx(table[0], field)
    p = build_fieldpred(tok)
    pred = lambda r: bool(p(cell(r, j, missing)))
    if missing is None:
        both('select.field', table, pred, lambda comp: etl.select(table, field, p, complement=comp))
    both('select.field/missing', table, pred,
         lambda comp: etl.select(table, field, p, complement=comp, missing=missing))
    try:
        t1, t2 = etl.biselect(table, field, p, missing=missing)
    except Exception as e:
        raise Fail('biselect/' + type(e).__name__, None, repr(e))
    g1, g2 = mat(lambda: t1, 'biselect'), mat(lambda: t2, 'biselect')
    w1, w2 = filt(table, pred), filt(table, lambda r: not pred(r))
    expect(g1 == w1, 'biselect/selected', w1, g1)
    expect(g2 == w2, 'biselect/rest', w2, g2)


CTXQ = ['first', 'last', 'all', 'none', 'inner', 'prv-same', 'nxt-differs', 'cur-none', 'nxt-short']


def build_ctxq(tok):
    """query(prv, cur, nxt): prv / nxt are None at the ends; rows are records (missing cell reads as None)"""
    if tok == 'first':
        return lambda p, c, n: p is None
    if tok == 'last':
        return lambda p, c, n: n is None
    if tok == 'all':
        return lambda p, c, n: True
    if tok == 'none':
        return lambda p, c, n: False
    if tok == 'inner':
        return lambda p, c, n: p is not None and n is not None
    if tok == 'prv-same':
        return lambda p, c, n: p is not None and ref_eq(p['f1'], c['f1'])
    if tok == 'nxt-differs':
        return lambda p, c, n: n is not None and not ref_eq(n.f1, c.f1)
    if tok == 'cur-none':
        return lambda p, c, n: c[1] is None
    if tok == 'nxt-short':
        return lambda p, c, n: n is not None and len(n) < 2
    raise ValueError(tok)


def _ctx_inputs(tier, seed):
    cells = [None, 0, 'a']
    n = 4 if tier == 'thorough' else 3
    for t in gen_tables(cells, n, 2):
        if any(len(r) > 2 for r in t[1:]) and len(t) > 3:
            continue
        for tok in CTXQ:
            yield (t, tok)


class _Rec(tuple):
    """reference record: cell by index / name / attribute, missing cell reads as None"""
    def __getitem__(self, k):
        j = {'f0': 0, 'f1': 1}.get(k, k)
        return tuple.__getitem__(self, j) if j < len(self) else None
    f0 = property(lambda self: self[0])
    f1 = property(lambda self: self[1])


@group('usingcontext', _ctx_inputs)
def chk_ctx(inp):
    table, tok = inp
    q = build_ctxq(tok)
    rows = [_Rec(r) for r in table[1:]]
    want = [tuple(table[0])]
    for i, r in enumerate(rows):
        p = rows[i - 1] if i > 0 else None
        n = rows[i + 1] if i + 1 < len(rows) else None
        if q(p, r, n):
            want.append(tuple(r))
    sub = 'header-only' if len(table) == 1 else 'selectusingcontext'
    got = mat(lambda: etl.selectusingcontext(table, q), sub)
    expect(got == want, sub, want, got)


def _facet_inputs(tier, seed):
    cells = [None, 0, 1, 'a', (0,)]
    n = 3
    out = []
    for t in gen_tables(cells, n if tier == 'thorough' else 2, 2):
        out.append((t, 'f1'))
        out.append((t, 1))
    for t in gen_tables(cells, n, 1):
        out.append((t, 'f0'))
    # compound keys: both key cells from a small alphabet (f0 is not a row number here)
    small = [None, 0, 'a']
    rows = [(a, b) for a in small for b in small] + [(a,) for a in small] + [(0, 0, 'x')]
    for k in range(0, (3 if tier == 'thorough' else 2) + 1):
        for body in itertools.product(rows, repeat=k):
            out.append(([('f0', 'f1')] + list(body), ('f0', 'f1')))
    return out


@group('facet', _facet_inputs)
def chk_facet(inp):
    table, key = inp
    hdr = tuple(table[0])
    compound = isinstance(key, tuple)
    short = any(len(r) < len(hdr) for r in table[1:])
    tag = ('compound-key' if compound else 'key') + ('/short-row' if short else '')
    if compound:
        kv = lambda r: tuple(cell(r, fidx(hdr, k)) for k in key)
    else:
        kv = lambda r: cell(r, fidx(hdr, key))
    try:
        fct = etl.facet(table, key)
        got = dict((k, [tuple(r) for r in v]) for k, v in fct.items())
    except Exception as e:
        raise Fail('%s/%s' % (tag, type(e).__name__), None, repr(e), traceback.format_exc()[-600:])
    rows = [tuple(r) for r in table[1:]]
    want = {}
    for r in rows:
        want.setdefault(kv(r), [hdr]).append(r)
    expect(set(got) == set(want), tag + '/keys', sorted(map(repr, want)), sorted(map(repr, got)))
    # the facet tables partition the input: every row in exactly one of them, in input order
    n_out = sum(len(v) - 1 for v in got.values())
    if n_out != len(rows):
        raise Fail(tag + ('/rows-lost' if n_out < len(rows) else '/rows-duplicated'), want, got)
    expect(got == want, tag + '/tables', want, got)


# ------------------------------------------------------------------------------------------------- search

PATTERNS = ['a', '^a', '1', 'None', '.', 'x$', '^$']


def _search_tables(tier):
    cells = [None, 'a', 'ba', 1, 11, '']
    n = 3 if tier == 'thorough' else 2
    return gen_tables(cells, n, 2)


def _search_inputs(tier, seed):
    for t in _search_tables(tier):
        short = any(len(r) < 2 for r in t[1:])
        for pat in PATTERNS:
            yield (t, None, pat)
            yield (t, 'f0', pat)
            if not short:
                yield (t, 'f1', pat)
                yield (t, 1, pat)
                yield (t, ('f0', 'f1'), pat)


def _search_pred(table, field, pat):
    prog = re.compile(pat)
    hdr = table[0]
    if field is None:
        return lambda r: any(prog.search(str(v)) is not None for v in r)
    if isinstance(field, tuple):
        js = [fidx(hdr, f) for f in field]
        return lambda r: any(prog.search(str(r[j])) is not None for j in js)
    j = fidx(hdr, field)
    return lambda r: prog.search(str(r[j])) is not None


def _search_calls(table, field, pat):
    args = (pat,) if field is None else (field, pat)
    return [('search', lambda: etl.search(table, *args)),
            ('searchcomplement', lambda: etl.searchcomplement(table, *args)),
            ('search/complement', lambda: etl.search(table, *args, complement=True))]


@group('search', _search_inputs)
def chk_search(inp):
    table, field, pat = inp
    pred = _search_pred(table, field, pat)
    tag = 'any' if field is None else 'field'
    for name, call in _search_calls(table, field, pat):
        want = filt(table, pred if name == 'search' else (lambda r: not pred(r)))
        got = mat(call, '%s/%s' % (name, tag))
        expect(got == want, '%s/%s' % (name, tag), want, got)


def _search_flags_inputs(tier, seed):
    t = [('f0', 'f1'), ('Apple', 1), ('apple', 2), ('BANANA', 3), ('x\napple', 4), (None, 5)]
    for flags in (re.I, re.M, re.I | re.M):
        for pat in ('apple', '^apple', 'a'):
            for field in (None, 'f0'):
                yield (t, field, pat, flags)


@group('search.flags', _search_flags_inputs)
def chk_search_flags(inp):
    """the flags keyword reaches the regex in search AND in searchcomplement: with the same arguments they partition the table"""
    table, field, pat, flags = inp
    prog = re.compile(pat, flags)
    if field is None:
        pred = lambda r: any(prog.search(str(v)) is not None for v in r)
    else:
        j = fidx(table[0], field)
        pred = lambda r: prog.search(str(r[j])) is not None
    args = (pat,) if field is None else (field, pat)
    for name, call, want_pred in (('search', lambda: etl.search(table, *args, flags=flags), pred),
                                  ('searchcomplement', lambda: etl.searchcomplement(table, *args, flags=flags), lambda r: not pred(r)),
                                  ('search/complement', lambda: etl.search(table, *args, flags=flags, complement=True), lambda r: not pred(r))):
        want = filt(table, want_pred)
        got = mat(call, name + '/flags')
        expect(got == want, name + '/flags', want, got)


def _search_short_inputs(tier, seed):
    for t in _search_tables(tier):
        if any(len(r) < 2 for r in t[1:]):
            for pat in ('a', 'None', '^$'):
                yield (t, 'f1', pat)
                yield (t, ('f0', 'f1'), pat)


@group('search.shortrow', _search_short_inputs)
def chk_search_short(inp):
    """a field-specific search on a table with a row that lacks the field: the documentation does not say how the
    missing cell is read, so only the partition is demanded: no exception, rows that have the field are classified by
    the pattern, and a row without it is in exactly one of search / searchcomplement"""
    table, field, pat = inp
    prog = re.compile(pat)
    hdr = tuple(table[0])
    js = [fidx(hdr, f) for f in (field if isinstance(field, tuple) else (field,))]
    got_s = mat(lambda: etl.search(table, field, pat), 'partition')
    got_c = mat(lambda: etl.searchcomplement(table, field, pat), 'partition')
    expect(got_s[0] == hdr and got_c[0] == hdr, 'header', hdr, (got_s[:1], got_c[:1]))
    s, c = got_s[1:], got_c[1:]
    for r in table[1:]:
        r = tuple(r)
        ins, inc = s.count(r), c.count(r)
        expect(ins + inc == table[1:].count(r), 'partition', 'every row in exactly one', (got_s, got_c))
        if all(j < len(r) for j in js):
            m = any(prog.search(str(r[j])) is not None for j in js)
            expect((ins > 0) == m, 'full-row-classified', m, (got_s, got_c))
    # order preserved
    order = [tuple(r) for r in table[1:]]
    expect(s == [r for r in order if r in s] and c == [r for r in order if r in c], 'order', order, (s, c))


# ------------------------------------------------------------------------------------------------- slicing

def _slice_inputs(tier, seed):
    vals = [None, 0, 1, 2, 3, 4]
    maxn = 6 if tier == 'thorough' else 5
    for n in range(maxn + 1):
        for a in vals:
            yield (n, (a,))
            for b in vals:
                yield (n, (a, b))
                for c in vals:
                    if c == 0:
                        continue
                    yield (n, (a, b, c))
        yield (n, ())


def _numbered(n, ragged=True):
    rows = []
    for i in range(n):
        rows.append((i, 'r%d' % i) if not ragged or i % 3 == 0 else ((i,) if i % 3 == 1 else (i, None, 'x')))
    return [('f0', 'f1')] + rows


@group('slice', _slice_inputs)
def chk_slice(inp):
    n, args = inp
    table = _numbered(n)
    rows = table[1:]
    sargs = args if args else (None,)
    want = [table[0]] + list(itertools.islice(rows, *sargs))
    got = mat(lambda: etl.rowslice(table, *args), 'rowslice')
    expect(got == want, 'rowslice', want, got)
    if args:
        gd = mat(lambda: etl.data(table, *args), 'data')
        expect(gd == want[1:], 'data-slice', want[1:], gd)
    if len(args) == 1 and args[0] is not None:
        k = args[0]
        got = mat(lambda: etl.head(table, k), 'head')
        expect(got == [table[0]] + rows[:k], 'head', [table[0]] + rows[:k], got)
        w = [table[0]] + (rows[len(rows) - k:] if k < len(rows) else rows) if k > 0 else [table[0]]
        got = mat(lambda: etl.tail(table, k), 'tail')
        expect(got == w, 'tail', w, got)
        # skip(n): skip n rows including the header row; the next row becomes the header
        got = mat(lambda: etl.skip(table, k), 'skip')
        expect(got == table[k:], 'skip', table[k:], got)
    if not args:
        for nm, fn in (('head', etl.head), ('tail', etl.tail)):
            got = mat(lambda: fn(table), nm + '/default')
            w = [table[0]] + (rows[:5] if nm == 'head' else rows[-5:])
            expect(got == w, nm + '/default', w, got)


# ------------------------------------------------------------------------------ complement laws off the order

# values that petl's ordering leaves unordered against each other (neither <, > nor ==): NaN against numbers, unequal
# sets that are not subsets, unequal dicts.  No documented predicate is claimed for them; what must still hold is
# that selectlt / selectge and selectle / selectgt are exact complements and that complement=True is the exact rest.
UNORDERED = ['<nan>', 0, 1.5, None, 'a', {1}, {2}, {1, 2}, {'k': 1}, {'k': 2}, 1j, 2j]


def _dec_nan(x):
    return float('nan') if isinstance(x, str) and x == '<nan>' else x


def _unordered_inputs(tier, seed):
    n = 2
    vals = UNORDERED
    for k in range(1, n + 1):
        for cs in itertools.product(vals, repeat=k):
            for v in vals:
                yield (cs, v)


@group('laws.unordered', _unordered_inputs)
def chk_unordered(inp):
    cs, tv = inp
    v = _dec_nan(tv)
    table = [('f0', 'f1')] + [(i, _dec_nan(c)) for i, c in enumerate(cs)]
    ids = list(range(len(cs)))

    def sel(fn, comp=False):
        got = mat(lambda: fn(table, 'f1', v, complement=comp), fn.__name__)
        return [r[0] for r in got[1:]]
    for a, b in ((etl.selectlt, etl.selectge), (etl.selectle, etl.selectgt)):
        sa, sb = sel(a), sel(b)
        key = '%s-%s' % (a.__name__, b.__name__)
        expect(sorted(sa + sb) == ids, key + '/partition', ids, (sa, sb))
        expect(sel(a, True) == sb, key + '/complement-is-other', sb, sel(a, True))
        expect(sel(b, True) == sa, key + '/complement-is-other', sa, sel(b, True))
    for fn in (etl.selecteq, etl.selectne):
        s, c = sel(fn), sel(fn, True)
        expect(sorted(s + c) == ids, fn.__name__ + '/partition', ids, (s, c))
