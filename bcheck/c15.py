"""C15 bounded stand-in: write with to*/append*, read back with the matching from*, on the real petl functions.

Reference side (independent of petl): the expected table is computed with plain loops -- each cell as str() renders it
(None -> '') for csv/tsv, type-exact for pickle, JSON types for json -- and file bytes are read with the standard
library (open / gzip.decompress / bz2.decompress / MemorySource.getvalue()).  "to* then append*" is compared with
"to* of the plain row concatenation" written by the same petl function into a fresh in-memory sink.
"""
import bz2, csv, gzip, itertools, json, locale, os, random, shutil, tempfile
from contextlib import contextmanager
import petl as etl
from petl.io.sources import MemorySource
from .common import group, expect, Fail, tables

RULE = ('a case = one (format, to*/append* sequence of small tables with header flags, encoding, csv arguments or pickle '
        'protocol or json form, kind of target) evaluation: write through petl, read bytes with the standard library, read '
        'back through the matching petl from*; cell pairs over the 12-string alphabet {"", a, comma, dquote, CR, LF, CRLF, '
        'NUL, e-acute, TAB, squote, " a "} and typed cells are exhaustive on the in-memory sink, table shapes (zero-field '
        'header, header-only, empty and ragged rows) are exhaustive over a 2-cell alphabet, path/.gz/.bz2 targets take a '
        'seeded sample of the same inputs; distinct = distinct input tuples per group')
BOUND = {'quick': 'tables <= 2 data rows (<= 2 fields, ragged +-1), to* then 0-2 append*; all ordered cell pairs x '
                  '{utf-8, utf-16-le, latin-1} x 4 delimiters x 3 quotechars x {QUOTE_MINIMAL, ALL, NONNUMERIC} on '
                  'MemorySource; about 2100 sampled cases on path/.gz/.bz2 targets; sink re-use exhaustive over 4 kinds',
         'thorough': 'tables <= 3 data rows, all to*+append*+append* triples of <= 1-row tables on MemorySource, about '
                     '60000 sampled cases on path/.gz/.bz2 targets'}

TEXT = ['', 'a', ',', '"', '\r', '\n', '\r\n', '\x00', '\xe9', '\t', "'", ' a ']
TYPED = [None, 0, -1, 1.5, True, False, [1, 'a'], [], [[None]], 10 ** 20, 1e100]
ALLCELLS = TEXT + TYPED
ENCS = ['utf-8', 'utf-16-le', 'latin-1']
DELIMS = [',', '\t', ';', "'"]
QUOTECHARS = ['"', "'", ',']
QUOTINGS = [csv.QUOTE_MINIMAL, csv.QUOTE_ALL, csv.QUOTE_NONNUMERIC]  # 0, 1, 2 ; QUOTE_NONE needs an escapechar: excluded
CSVARGS = [(d, q, m) for d in DELIMS for q in QUOTECHARS for m in QUOTINGS if d != q]
TSVARGS = [(None, None, None), (None, None, 1), (None, "'", 0), (None, ',', 2)]
KINDS = ['path', 'gz', 'bz2', 'mem']
FILEKINDS = ['path', 'gz', 'bz2']
H2 = ('f0', 'f1')


def _default_encoding_is_utf8():
    try:
        return locale.getpreferredencoding(False).lower().replace('-', '') == 'utf8'
    except Exception:
        return False


# ------------------------------------------------------------------------------------------------ targets

@contextmanager
def workdir(needed=True):
    d = tempfile.mkdtemp(prefix='bcheck_c15_') if needed else None
    try:
        yield d
    finally:
        if d is not None:
            shutil.rmtree(d, ignore_errors=True)


class Target(object):
    """a place petl writes to: a path (plain / .gz / .bz2, chosen by petl from the extension) or a MemorySource"""
    SUFFIX = {'path': '', 'gz': '.gz', 'bz2': '.bz2'}

    def __init__(self, kind, d, name):
        self.kind = kind
        self.obj = MemorySource() if kind == 'mem' else os.path.join(d, name + self.SUFFIX[kind])

    def content(self):
        """the payload bytes, read WITHOUT petl (decompressed for .gz/.bz2)"""
        if self.kind == 'mem':
            v = self.obj.getvalue()
            return b'' if v is None else v
        with open(self.obj, 'rb') as f:
            raw = f.read()
        if self.kind == 'gz':
            return gzip.decompress(raw)
        if self.kind == 'bz2':
            return bz2.decompress(raw)
        return raw

    def reader(self):
        return MemorySource(self.content()) if self.kind == 'mem' else self.obj


def same(a, b):
    """type-exact equality of plain values (1 vs 1.0 vs True, list vs tuple differ)"""
    return repr(a) == repr(b)


def stream(sections):
    """the rows that should be in the file: to* writes the header unless write_header=False, append* only if True"""
    out = []
    for i, (t, flag) in enumerate(sections):
        eff = (i == 0) if flag is None else flag
        out.extend(t if eff else t[1:])
    return [tuple(r) for r in out]


def flagkw(flag):
    return {} if flag is None else {'write_header': flag}


# ------------------------------------------------------------------------------------------------ csv / tsv

def render(c, quoting):
    if c is None:
        return ''
    if quoting == csv.QUOTE_NONNUMERIC and isinstance(c, (int, float)) and not isinstance(c, bool):
        return float(c)  # the csv module's documented reader behaviour for unquoted (= numeric) fields
    return str(c)


def csvkw(enc, args):
    d, q, m = args
    kw = {}
    if enc is not None:
        kw['encoding'] = enc
    if d is not None:
        kw['delimiter'] = d
    if q is not None:
        kw['quotechar'] = q
    if m is not None:
        kw['quoting'] = m
    return kw


def check_csv(inp):
    fmt, sections, enc, args, kind = inp
    to, app, frm = ((etl.tocsv, etl.appendcsv, etl.fromcsv) if fmt == 'csv' else (etl.totsv, etl.appendtsv, etl.fromtsv))
    kw = csvkw(enc, args)
    quoting = args[2]
    rows = stream(sections)
    exp = [tuple(render(c, quoting) for c in r) for r in rows]
    with workdir(kind != 'mem') as d:
        tg = Target(kind, d, 'x.' + fmt)
        to(sections[0][0], tg.obj, **dict(kw, **flagkw(sections[0][1])))
        for t, flag in sections[1:]:
            app(t, tg.obj, **dict(kw, **flagkw(flag)))
        content = tg.content()
        got = [r for r in frm(tg.reader(), **kw)]
        expect(same(got, exp), 'roundtrip', exp, got)
        # header= adds exactly one row in front, nothing else changes
        got_h = [r for r in frm(tg.reader(), header=['h0', 'h1'], **kw)]
        expect(same(got_h, [('h0', 'h1')] + exp), 'header-arg', [('h0', 'h1')] + exp, got_h)
        if fmt == 'tsv' and args[0] is None:
            got_t = [r for r in etl.fromcsv(tg.reader(), dialect='excel-tab', **kw)]
            expect(same(got_t, exp), 'tsv-is-tab-delimited-csv', exp, got_t)
        # bytes: to* + append* == to*(concatenation); a header dropped by write_header=False leaves no trace
        plain = len(sections) == 1 and sections[0][1] in (None, True)
        if not plain or kind != 'mem':
            if rows:
                ref = Target('mem', None, '')
                to(rows, ref.obj, write_header=True, **kw)
                refbytes = ref.content()
            else:
                refbytes = b''
            expect(content == refbytes, 'bytes-vs-memory-sink' if plain else 'bytes-vs-to-cat', refbytes, content)


def _csv_cells(tier, seed):
    for a, b in itertools.product(TEXT, repeat=2):
        sections = (([H2, (a, b)], None), ([H2, (b, a), (a,)], None))
        for enc in ENCS:
            for args in CSVARGS:
                yield ('csv', sections, enc, args, 'mem')
            for args in TSVARGS:
                yield ('tsv', sections, enc, args, 'mem')
    # special text in the header row as well; default arguments
    for a, b in itertools.product(TEXT, repeat=2):
        for enc in ENCS + ([None] if _default_encoding_is_utf8() else []):
            yield ('csv', (([(a, b), (b, a)], None),), enc, (None, None, None), 'mem')
            yield ('tsv', (([(a, b), (b, a)], False), ([(b, a), (a, b)], True)), enc, (None, None, None), 'mem')
    if tier == 'thorough':
        for a, b, c in itertools.product(TEXT, repeat=3):
            sections = (([H2, (a, b), (c, a)], None), ([H2, (b, c)], None))
            for enc in ENCS:
                for m in QUOTINGS:
                    yield ('csv', sections, enc, (None, None, m), 'mem')


group('csv.cells', _csv_cells)(check_csv)


def _typed_ok(cells, quoting):
    return not (quoting == csv.QUOTE_NONNUMERIC and any(isinstance(c, bool) for c in cells))


def _csv_typed(tier, seed):
    alpha = TYPED + ['', 'a']
    for a, b in itertools.product(alpha, repeat=2):
        sections = (([H2, (a, b)], None), ([H2, (b, a), (a,)], None))
        for m in QUOTINGS:
            if not _typed_ok((a, b), m):
                continue
            for d in (None, ';'):
                yield ('csv', sections, 'utf-8', (d, None, m), 'mem')
            yield ('tsv', sections, 'utf-8', (None, None, m), 'mem')


group('csv.typed', _csv_typed)(check_csv)


def _shape_tables(tier, cells=('', 'a')):
    return list(tables(list(cells), widths=(0, 1, 2), maxrows=3 if tier == 'thorough' else 2, ragged=True))


def _csv_shapes(tier, seed):
    for t in _shape_tables(tier):
        for flag in (None, True, False):
            for enc in ENCS:
                for m in QUOTINGS:
                    yield ('csv', ((t, flag),), enc, (None, None, m), 'mem')
            yield ('tsv', ((t, flag),), 'utf-8', (None, None, None), 'mem')
    if tier == 'thorough':
        for t in tables(['', 'a', '\n'], widths=(0, 1, 2), maxrows=2, ragged=True):
            for flag in (None, False):
                yield ('csv', ((t, flag),), 'utf-16-le', (None, None, 0), 'mem')


group('csv.shapes', _csv_shapes)(check_csv)


def _small_tables():
    out = {}
    for w in (1, 2):
        out[w] = list(tables(['a', ''], widths=(w,), maxrows=1, ragged=True))
    return out


def _csv_append(tier, seed):
    rnd = random.Random(seed)
    small = _small_tables()
    flags = (None, True, False)
    triples = []
    for w in (1, 2):
        for t0, t1 in itertools.product(small[w], repeat=2):
            for f0, f1 in itertools.product(flags, repeat=2):
                yield ('csv', ((t0, f0), (t1, f1)), 'utf-8', (None, None, None), 'mem')
        for t0, t1, t2 in itertools.product(small[w], repeat=3):
            for fl in itertools.product(flags, repeat=3):
                triples.append(('csv', ((t0, fl[0]), (t1, fl[1]), (t2, fl[2])), 'utf-8', (None, None, None), 'mem'))
    if tier != 'thorough':
        triples = rnd.sample(triples, 1500)
    for x in triples:
        yield x
    # encodings that start with a byte-order mark: appending must not write a second one in the middle of the file
    t0, t1 = [('f0', 'f1'), ('a', 'b')], [('f0', 'f1'), ('c', '\u00e9')]
    for enc in ('utf-16', 'utf-8-sig', 'utf-32'):
        for kind in ('mem', 'path'):
            for fam in ('csv', 'tsv'):
                yield (fam, ((t0, None), (t1, None)), enc, (None, None, None), kind)
                yield (fam, ((t0, None), (t1, None), (t0, None)), enc, (None, None, None), kind)


group('csv.append', _csv_append)(check_csv)


def _csv_bom_compressed(tier, seed):
    """byte-order-mark encodings on COMPRESSED targets (the plain-path / memory cases are in csv.append): one write, and a
    write followed by one / two appends"""
    t0, t1 = [('f0', 'f1'), ('a', 'b')], [('f0', 'f1'), ('c', '\u00e9')]
    for enc in ('utf-16', 'utf-8-sig', 'utf-32'):
        for kind in ('gz', 'bz2'):
            for fam in ('csv', 'tsv'):
                yield (fam, enc, kind, (t0,))
                yield (fam, enc, kind, (t0, t1))
                yield (fam, enc, kind, (t0, t1, t0))


def check_csv_bom_compressed(inp):
    fam, enc, kind, tabs = inp
    to, app, frm = ((etl.tocsv, etl.appendcsv, etl.fromcsv) if fam == 'csv' else (etl.totsv, etl.appendtsv, etl.fromtsv))
    exp = [tuple(str(c) for c in r) for r in stream(tuple((t, None) for t in tabs))]
    sub = '%s/%s/%s' % (enc, kind, 'write-read' if len(tabs) == 1 else 'append')      # one key per (encoding, target kind, sequence)
    with workdir(True) as d:
        tg = Target(kind, d, 'x.' + fam)
        to(tabs[0], tg.obj, encoding=enc)
        for t in tabs[1:]:
            app(t, tg.obj, encoding=enc)
        try:
            got = [r for r in frm(tg.reader(), encoding=enc)]
        except UnicodeError as e:
            got = 'UnicodeError: %s' % e
        expect(same(got, exp), sub, exp, got)


group('csv.bom-compressed', _csv_bom_compressed)(check_csv_bom_compressed)


def _rand_table(rnd, cells, maxrows, width=None, hdr_special=False):
    w = rnd.choice((0, 1, 2, 2)) if width is None else width
    hdr = tuple(rnd.choice(TEXT) for _ in range(w)) if hdr_special else tuple('f%d' % i for i in range(w))
    n = rnd.randint(0, maxrows)
    body = []
    for _ in range(n):
        l = max(0, w + rnd.choice((0, 0, 0, -1, 1)))
        body.append(tuple(rnd.choice(cells) for _ in range(l)))
    return [hdr] + body


def _csv_files(tier, seed):
    """path / .gz / .bz2 targets (and the in-memory sink again) for sampled inputs of every kind above"""
    rnd = random.Random(seed + 1)
    per_kind = 12000 if tier == 'thorough' else 400
    maxrows = 3 if tier == 'thorough' else 2
    encs = ENCS + ([None] if _default_encoding_is_utf8() else [])
    for kind in FILEKINDS + ['mem']:
        for i in range(per_kind):
            fmt = rnd.choice(('csv', 'csv', 'tsv'))
            if fmt == 'tsv':
                args = rnd.choice(TSVARGS)
            else:
                args = rnd.choice(CSVARGS) if rnd.random() < 0.7 else rnd.choice(TSVARGS[:3])
            cells = TEXT if args[2] == csv.QUOTE_NONNUMERIC or rnd.random() < 0.7 else \
                [c for c in ALLCELLS if not (isinstance(c, bool) and args[2] == csv.QUOTE_NONNUMERIC)]
            w = rnd.choice((0, 1, 2, 2))
            nsec = rnd.choice((1, 1, 2, 3))
            sections = tuple((_rand_table(rnd, cells, maxrows, width=w, hdr_special=(i % 5 == 0)),
                              rnd.choice((None, None, True, False))) for _ in range(nsec))
            yield (fmt, sections, rnd.choice(encs), args, kind)


group('csv.files', _csv_files)(check_csv)


# ------------------------------------------------------------------------------------------------ pickle

def _share(sections):
    """equal non-atomic cells / rows become ONE object, so that the same object occurs in several rows and sections"""
    pool = {}

    def one(x):
        return pool.setdefault(repr(x), x)
    return tuple(([one(tuple(one(c) for c in r)) for r in t], flag) for t, flag in sections)


def check_pickle(inp):
    sections, protocol, kind = inp
    sections = _share(sections)
    pkw = {} if protocol is None else {'protocol': protocol}
    rows = stream(sections)
    with workdir(kind != 'mem') as d:
        tg = Target(kind, d, 'x.p')
        etl.topickle(sections[0][0], tg.obj, **dict(pkw, **flagkw(sections[0][1])))
        for t, flag in sections[1:]:
            etl.appendpickle(t, tg.obj, **dict(pkw, **flagkw(flag)))
        content = tg.content()
        got = [r for r in etl.frompickle(tg.reader())]
        expect(same(got, rows), 'roundtrip', rows, got)
        plain = len(sections) == 1 and sections[0][1] in (None, True)
        if not plain or kind != 'mem':
            if rows:
                ref = Target('mem', None, '')
                etl.topickle(rows, ref.obj, write_header=True, **pkw)
                refbytes = ref.content()
            else:
                refbytes = b''
            expect(content == refbytes, 'bytes-vs-memory-sink' if plain else 'bytes-vs-to-cat', refbytes, content)


PROTOCOLS = [None, -1, 0, 1, 2, 3, 4, 5]


def _pickle_mem(tier, seed):
    for a, b in itertools.product(ALLCELLS, repeat=2):
        for p in (None, 0, 2, 5):
            yield ((([H2, (a, b)], None), ([H2, (b, a), (a,)], None)), p, 'mem')
    for t in _shape_tables(tier, cells=(None, 'a')):
        for flag in (None, True, False):
            for p in (None, 1):
                yield (((t, flag),), p, 'mem')
    small = {w: list(tables([[1], 'a'], widths=(w,), maxrows=1, ragged=True)) for w in (1, 2)}
    flags = (None, True, False)
    for w in (1, 2):
        for t0, t1 in itertools.product(small[w], repeat=2):
            for f0, f1 in itertools.product(flags, repeat=2):
                yield (((t0, f0), (t1, f1)), 3 if w == 1 else 4, 'mem')


group('pickle.mem', _pickle_mem)(check_pickle)


def _pickle_files(tier, seed):
    rnd = random.Random(seed + 2)
    per_kind = 4000 if tier == 'thorough' else 150
    maxrows = 3 if tier == 'thorough' else 2
    for kind in FILEKINDS + ['mem']:
        for i in range(per_kind):
            w = rnd.choice((0, 1, 2, 2))
            nsec = rnd.choice((1, 1, 2, 3))
            sections = tuple((_rand_table(rnd, ALLCELLS, maxrows, width=w, hdr_special=(i % 5 == 0)),
                              rnd.choice((None, None, True, False))) for _ in range(nsec))
            yield (sections, rnd.choice(PROTOCOLS), kind)


group('pickle.files', _pickle_files)(check_pickle)


# ------------------------------------------------------------------------------------------------ json

JSON_HEADERS = [('f0', 'f1'), ('', '\n'), ('\xe9', '"'), ('\x00', ' a ')]
FORMS = ['array', 'lines', 'arrays', 'arrays+header', 'arrays-lines']


def jsonify(x):
    return [jsonify(y) for y in x] if isinstance(x, (list, tuple)) else x


def check_json(inp):
    form, table, ensure_ascii, kind = inp
    kw = {} if ensure_ascii is None else {'ensure_ascii': ensure_ascii}
    hdr = tuple(table[0])
    body = [tuple(jsonify(c) for c in r) for r in table[1:]]
    if form in ('array', 'lines'):
        # records carry EVERY field: a short row is padded with None (documented for dicts()), surplus cells have no field to live under
        body = [tuple((list(r) + [None] * len(hdr))[:len(hdr)]) for r in body]
    with workdir(kind != 'mem') as d:
        tg = Target(kind, d, 'x.json')
        if form == 'array':
            etl.tojson(table, tg.obj, **kw)
        elif form == 'lines':
            etl.tojson(table, tg.obj, lines=True, **kw)
        elif form == 'arrays':
            etl.tojsonarrays(table, tg.obj, **kw)
        elif form == 'arrays+header':
            etl.tojsonarrays(table, tg.obj, output_header=True, **kw)
        else:
            etl.tojsonarrays(table, tg.obj, lines=True, **kw)
        content = tg.content()
        text = content.decode('utf-8')
        if kind != 'mem':
            ref = Target('mem', None, '')
            if form == 'array':
                etl.tojson(table, ref.obj, **kw)
            elif form == 'lines':
                etl.tojson(table, ref.obj, lines=True, **kw)
            elif form == 'arrays':
                etl.tojsonarrays(table, ref.obj, **kw)
            elif form == 'arrays+header':
                etl.tojsonarrays(table, ref.obj, output_header=True, **kw)
            else:
                etl.tojsonarrays(table, ref.obj, lines=True, **kw)
            expect(content == ref.content(), 'bytes-vs-memory-sink', ref.content(), content)
        if form in ('array', 'lines'):
            exp = [hdr] + body
            got = [tuple(r) for r in etl.fromjson(tg.reader(), **({'lines': True} if form == 'lines' else {}))]
            expect(same(got, exp), 'roundtrip', exp, got)
            if form == 'array':
                got_d = [tuple(r) for r in etl.fromdicts(json.loads(text))]
                expect(same(got_d, exp), 'roundtrip-fromdicts', exp, got_d)
            else:
                docs = [json.loads(l) for l in text.split('\n') if l]
                expect(text.endswith('\n') and len(docs) == len(body), 'lines-form', len(body), text)
                got_d = [tuple(r) for r in etl.fromdicts(docs)]
                expect(same(got_d, exp), 'roundtrip-fromdicts', exp, got_d)
        else:
            # rows as arrays: the parsed document is itself a table (a list of rows); output_header adds/drops the header
            if form == 'arrays-lines':
                doc = [json.loads(l) for l in text.split('\n') if l]
            else:
                doc = json.loads(text)
            exp = ([hdr] if form == 'arrays+header' else []) + body
            got = [tuple(r) for r in etl.wrap(doc)] if doc else []
            expect(same(got, exp), 'roundtrip', exp, got)


def _json_inputs(tier, seed):
    rnd = random.Random(seed + 3)
    # rectangular tables with at least one data row for the record forms; ragged/empty allowed for the array forms
    for a, b in itertools.product(ALLCELLS, repeat=2):
        for form in FORMS:
            for ea in (None, False):
                yield (form, [H2, (a, b), (b, a)], ea, 'mem')
    for hdr in JSON_HEADERS:
        for a in ALLCELLS:
            for form in FORMS:
                yield (form, [hdr, (a, 'a')], None, 'mem')
                yield (form, [hdr[:1], (a,), (None,), (a,)], False, 'mem')
    for a in (None, 0, 'x'):
        for form in ('array', 'lines'):
            # ragged tables through the record forms: short first row, short later row, long row
            yield (form, [H2, (a,), (a, 'b'), ('c', a, 'extra')], None, 'mem')
            yield (form, [H2, (a, 'b'), (), (a,)], None, 'mem')
    for t in tables([None, '\n'], widths=(0, 1, 2), maxrows=3 if tier == 'thorough' else 2, ragged=True):
        for form in ('arrays', 'arrays+header', 'arrays-lines'):
            yield (form, t, None, 'mem')
    per_kind = 4000 if tier == 'thorough' else 150
    for kind in FILEKINDS:
        for i in range(per_kind):
            form = rnd.choice(FORMS)
            hdr = rnd.choice(JSON_HEADERS)
            n = rnd.randint(1, 3 if tier == 'thorough' else 2)
            t = [hdr] + [tuple(rnd.choice(ALLCELLS) for _ in range(2)) for _ in range(n)]
            yield (form, t, rnd.choice((None, False)), kind)


group('json', _json_inputs)(check_json)


# ------------------------------------------------------------------------------------------------ re-used targets

LONG = [[('f0', 'f1'), ('aaaaaaaa', 'bbbbbbbb'), ('cccccccc', 'dddddddd'), ('eeeeeeee', 'ffffffff')],
        [('f0',), ('a',), ('b',)]]
SHORT = [[('f0', 'f1')], [('f0', 'f1'), ('a', 'b')], [()], [('f0',), ('a',)]]
FAMILIES = ['csv', 'tsv', 'pickle', 'json', 'jsonlines', 'jsonarrays']


def _writer(family, append=False):
    if family == 'csv':
        return etl.appendcsv if append else etl.tocsv
    if family == 'tsv':
        return etl.appendtsv if append else etl.totsv
    if family == 'pickle':
        return etl.appendpickle if append else etl.topickle
    if family == 'json':
        return etl.tojson
    if family == 'jsonlines':
        return lambda t, s: etl.tojson(t, s, lines=True)
    return lambda t, s: etl.tojsonarrays(t, s, output_header=True)


def check_reuse(inp):
    """to* on a target that already holds a longer payload overwrites it (documented: 'it will be overwritten');
    the very same MemorySource object / path is used for both writes"""
    family, long_t, short_t, kind, then_append = inp
    with workdir(kind != 'mem') as d:
        tg = Target(kind, d, 'x.dat')
        _writer(family)(long_t, tg.obj)
        first = tg.content()
        _writer(family)(short_t, tg.obj)
        if then_append:
            _writer(family, append=True)(long_t, tg.obj)
        content = tg.content()
        ref = Target('mem', None, '')
        _writer(family)(short_t, ref.obj)
        if then_append:
            _writer(family, append=True)(long_t, ref.obj)
        expect(content == ref.content(), 'second-write-not-fresh', ref.content(), content)
        # and the other direction: short first, long second
        _writer(family)(long_t, tg.obj)
        expect(tg.content() == first, 'rewrite-long-after-short', first, tg.content())
        # reading back what the re-used target holds
        if family in ('csv', 'tsv'):
            got = [r for r in (etl.fromcsv if family == 'csv' else etl.fromtsv)(tg.reader())]
            expect(same(got, [tuple(r) for r in long_t]), 'roundtrip', long_t, got)
        elif family == 'pickle':
            got = [r for r in etl.frompickle(tg.reader())]
            expect(same(got, [tuple(r) for r in long_t]), 'roundtrip', long_t, got)
        elif family in ('json', 'jsonlines'):
            got = [tuple(r) for r in etl.fromjson(tg.reader(), lines=(family == 'jsonlines'))]
            expect(same(got, [tuple(r) for r in long_t]), 'roundtrip', long_t, got)


def _reuse_inputs(tier, seed):
    for family in FAMILIES:
        for long_t in LONG:
            for short_t in SHORT:
                if family in ('json', 'jsonlines') and (len(short_t) < 2 or len(short_t[0]) == 0):
                    continue
                for kind in KINDS:
                    yield (family, long_t, short_t, kind, False)
                    if family in ('csv', 'tsv', 'pickle'):
                        yield (family, long_t, short_t, kind, True)


group('reuse', _reuse_inputs)(check_reuse)
