"""C11 bounded stand-in: the arguments that only select an execution strategy (buffersize, petl.config.sort_buffersize,
tempdir, cache, presorted on sorted inputs) never change the result of a sort-backed operator; the cache clause on
(edit source, iterate) histories with instrumented sources."""
import itertools, random, shutil, tempfile
import petl as etl
import petl.config
from .common import group, expect, Fail
from .sortref import key_indices, ref_sort

RULE = ('one case = one (operator form, input tables, strategy) call iterated twice (once for cache=False in the quick tier) and compared (header, rows, order; '
        'type-aware; an exception counts as an outcome) with the default call on the same inputs; strategies: buffersize '
        '1..n+1 and None x cache x tempdir, petl.config.sort_buffersize in {1, 2, None}, presorted=True on inputs sorted '
        'by the operator\'s key with the reference sort; or one (operator form, tables, cache, buffersize, history) '
        'evaluation with instrumented sources.  Inputs realise ties on the key with distinguishable rows, None keys, a '
        'short row; non-trivial = at least one input with >= 2 rows')
BOUND = {'quick': '43 operator forms; single-table inputs: all tables <= 2 rows over 5 row contents + 14 seeded 3-row tables; '
                  'two-table inputs: all pairs with <= 1 row each + 24 seeded pairs with <= 2 rows; tempdir set on every third cell of '
                  'the buffersize x cache grid; histories: <= 3 passes, edits {none, append, delete} on either source, '
                  'buffersize {None, 1}, initial tables: one with ties, one header-only',
         'thorough': 'single-table inputs: all tables <= 3 rows; two-table inputs: all pairs <= 2 rows; 3-4 table mergesort; '
                     'full buffersize x cache x tempdir product; histories on 3 initial tables'}


# ------------------------------------------------------------------------------------------------- canonical form

def canon(x):
    """type-aware, set-order-insensitive identity of a result cell / row / table"""
    if isinstance(x, (set, frozenset)):
        return (type(x).__name__, sorted((canon(e) for e in x), key=repr))
    if isinstance(x, (tuple, list)):
        return (type(x).__name__, [canon(e) for e in x])
    return (type(x).__name__, repr(x))


def materialise(result):
    """an operator returns a table or a tuple of tables; every table is read to the end"""
    if isinstance(result, tuple):
        return [[tuple(r) for r in t] for t in result]
    return [[tuple(r) for r in result]]


def outcome(result):
    try:
        m = materialise(result)
        return ('ok', canon(m), m)
    except Exception as e:        # the same failure under every strategy is the same result
        return ('exc', type(e).__name__, repr(e)[:200])


# ------------------------------------------------------------------------------------------------- operator forms

def _reducer(key, rows):
    return [key, tuple(tuple(r) for r in rows)]


def _mapper(key, rows):
    for r in rows:
        yield (key,) + tuple(r)


def _pairup(a, b):
    return (a, b)


def _listagg(vals):
    return [v for v in vals]


# name -> (kind, function(tables, **strategy) -> result, presort key or '-' when the form has no presorted argument,
#          accepts (subset of 'b' buffersize, 't' tempdir, 'c' cache))
# kinds: T = one tagged table ('t','k','v'); U = one untagged table ('k','v'); M = molten; LR = left/right for joins;
#        UU = two untagged tables; TT = 2-4 tagged tables
OPS = {}


def op(name, kind, presort, accepts='btc'):
    def deco(fn):
        OPS[name] = (kind, fn, presort, accepts)
        return fn
    return deco


@op('duplicates', 'T', 'k')
def _(t, **s): return etl.duplicates(t[0], 'k', **s)
@op('duplicates.compound', 'T', ('k', 'v'))
def _(t, **s): return etl.duplicates(t[0], ('k', 'v'), **s)
@op('duplicates.wholerow', 'U', None)
def _(t, **s): return etl.duplicates(t[0], **s)
@op('unique', 'T', 'k')
def _(t, **s): return etl.unique(t[0], 'k', **s)
@op('unique.wholerow', 'U', None)
def _(t, **s): return etl.unique(t[0], **s)
@op('distinct', 'T', 'k')
def _(t, **s): return etl.distinct(t[0], 'k', **s)
@op('distinct.count', 'T', 'k')
def _(t, **s): return etl.distinct(t[0], 'k', count='n', **s)
@op('distinct.wholerow', 'U', None)
def _(t, **s): return etl.distinct(t[0], **s)
@op('conflicts', 'T', 'k')
def _(t, **s): return etl.conflicts(t[0], 'k', exclude='t', **s)
@op('rowreduce', 'T', 'k')
def _(t, **s): return etl.rowreduce(t[0], 'k', _reducer, header=('k', 'rows'), **s)
@op('aggregate.simple', 'T', 'k')
def _(t, **s): return etl.aggregate(t[0], 'k', _listagg, 't', **s)
@op('aggregate.compound', 'T', ('k', 'v'))
def _(t, **s): return etl.aggregate(t[0], ('k', 'v'), _listagg, 't', **s)
@op('aggregate.multi', 'T', 'k')
def _(t, **s): return etl.aggregate(t[0], 'k', {'n': len, 'ts': ('t', _listagg), 'rows': _listagg}, **s)
@op('fold', 'T', 'k')
def _(t, **s): return etl.fold(t[0], 'k', _pairup, value='t', **s)
@op('groupselectfirst', 'T', 'k')
def _(t, **s): return etl.groupselectfirst(t[0], 'k', **s)
@op('groupselectlast', 'T', 'k')
def _(t, **s): return etl.groupselectlast(t[0], 'k', **s)
@op('groupselectmin', 'T', 'k')
def _(t, **s): return etl.groupselectmin(t[0], 'k', 'v', **s)
@op('groupselectmax', 'T', 'k')
def _(t, **s): return etl.groupselectmax(t[0], 'k', 'v', **s)
@op('mergeduplicates', 'T', 'k')
def _(t, **s): return etl.mergeduplicates(t[0], 'k', **s)
@op('pivot', 'T', ('k', 'v'))
def _(t, **s): return etl.pivot(t[0], 'k', 'v', 't', _listagg, **s)
@op('rowgroupmap', 'T', 'k')
def _(t, **s): return etl.rowgroupmap(t[0], 'k', _mapper, header=('key', 't', 'k', 'v'), **s)
@op('unjoin', 'T', 'v')
def _(t, **s): return etl.unjoin(t[0], 'v', **s)
@op('unjoin.key', 'T', 'k')
def _(t, **s): return etl.unjoin(t[0], 'v', key='k', **s)
@op('sort', 'T', '-')
def _(t, **s): return etl.sort(t[0], 'k', **s)
@op('sort.reverse', 'T', '-')
def _(t, **s): return etl.sort(t[0], 'k', reverse=True, **s)
@op('recast', 'M', '-', '')
def _(t, **s): return etl.recast(t[0], key='id', reducers={'a': _listagg, 'b': _listagg}, **s)
@op('join', 'LR', 'k')
def _(t, **s): return etl.join(t[0], t[1], key='k', **s)
@op('join.natural', 'LR', 'k')
def _(t, **s): return etl.join(t[0], t[1], **s)
@op('leftjoin', 'LR', 'k')
def _(t, **s): return etl.leftjoin(t[0], t[1], key='k', **s)
@op('rightjoin', 'LR', 'k')
def _(t, **s): return etl.rightjoin(t[0], t[1], key='k', **s)
@op('outerjoin', 'LR', 'k')
def _(t, **s): return etl.outerjoin(t[0], t[1], key='k', **s)
@op('antijoin', 'LR', 'k')
def _(t, **s): return etl.antijoin(t[0], t[1], key='k', **s)
@op('lookupjoin', 'LR', 'k')
def _(t, **s): return etl.lookupjoin(t[0], t[1], key='k', **s)
@op('complement', 'UU', None)
def _(t, **s): return etl.complement(t[0], t[1], **s)
@op('complement.strict', 'UU', None)
def _(t, **s): return etl.complement(t[0], t[1], strict=True, **s)
@op('intersection', 'UU', None)
def _(t, **s): return etl.intersection(t[0], t[1], **s)
@op('diff', 'UU', None)
def _(t, **s): return etl.diff(t[0], t[1], **s)
@op('recordcomplement', 'UU', '-')
def _(t, **s): return etl.recordcomplement(t[0], t[1], **s)
@op('recorddiff', 'UU', '-')
def _(t, **s): return etl.recorddiff(t[0], t[1], **s)
@op('mergesort', 'TT', 'k')
def _(t, **s): return etl.mergesort(*t, key='k', **s)
@op('mergesort.reverse', 'TT', '-')
def _(t, **s): return etl.mergesort(*t, key='k', reverse=True, **s)
@op('mergesort.compound', 'TT', ('k', 'v'))
def _(t, **s): return etl.mergesort(*t, key=('k', 'v'), **s)
@op('merge', 'TT', 'k')
def _(t, **s): return etl.merge(*t, key='k', **s)


# ------------------------------------------------------------------------------------------------- inputs

T_CONT = [(0, 'x'), (0, 'y'), (1, 'x'), (None, 'y'), (0,)]        # (k, v); the last one is a short row (v missing)
U_CONT = [(0, 'x'), (0, 'y'), (1, 'x'), (None, 'x')]              # rectangular only: whole-row order of ragged rows is not stated
M_CONT = [(0, 'a', 1), (0, 'a', 2), (0, 'b', 1), (1, 'a', 1)]


def _bodies(contents, lo, hi):
    return [b for n in range(lo, hi + 1) for b in itertools.product(contents, repeat=n)]


def _tag(hdr, body, base=0):
    return [hdr] + [(base + i,) + tuple(c) for i, c in enumerate(body)]


def _plain(hdr, body):
    return [hdr] + [tuple(c) for c in body]


def inputs_for(kind, tier, rnd):
    th = tier == 'thorough'
    if kind == 'T':
        bodies = _bodies(T_CONT, 0, 3) if th else _bodies(T_CONT, 0, 2) + rnd.sample(_bodies(T_CONT, 3, 3), 14)
        return [(_tag(('t', 'k', 'v'), b),) for b in bodies]
    if kind == 'U':
        bodies = _bodies(U_CONT, 0, 3) if th else _bodies(U_CONT, 0, 2) + rnd.sample(_bodies(U_CONT, 3, 3), 14)
        return [(_plain(('k', 'v'), b),) for b in bodies]
    if kind == 'M':
        bodies = _bodies(M_CONT, 0, 3) if th else _bodies(M_CONT, 0, 2) + rnd.sample(_bodies(M_CONT, 3, 3), 14)
        return [(_plain(('id', 'variable', 'value'), b),) for b in bodies]
    if kind in ('LR', 'UU', 'TT'):
        cont = U_CONT if kind == 'UU' else T_CONT
        small = list(itertools.product(_bodies(cont, 0, 1), repeat=2))
        big = [p for p in itertools.product(_bodies(cont, 0, 2), repeat=2) if max(len(p[0]), len(p[1])) == 2]
        pairs = small + (big if th else rnd.sample(big, 24))
        if kind == 'LR':
            return [(_tag(('t', 'k', 'v'), a), _tag(('u', 'k', 'w'), b, 10)) for a, b in pairs]
        if kind == 'UU':
            return [(_plain(('k', 'v'), a), _plain(('k', 'v'), b)) for a, b in pairs]
        out = [(_tag(('t', 'k', 'v'), a), _tag(('t', 'k', 'v'), b, 10)) for a, b in pairs]
        more = list(itertools.product(_bodies(T_CONT[:3], 0, 1), repeat=3))
        out += [tuple(_tag(('t', 'k', 'v'), b, 10 * j) for j, b in enumerate(c)) for c in (more if th else rnd.sample(more, 12))]
        if th:
            out += [tuple(_tag(('t', 'k', 'v'), b, 10 * j) for j, b in enumerate(c))
                    for c in itertools.product(_bodies(T_CONT[1:3], 0, 1), repeat=4)]
        return out
    raise ValueError(kind)


def strategies(n, accepts, presort, tier):
    out = []
    if 'b' in accepts:
        grid = list(itertools.product(list(range(1, n + 2)) + [None], (True, False)))
        for j, (b, c) in enumerate(grid):
            for td in ((False, True) if tier == 'thorough' else (j % 3 == 1,)):
                if b is None and c and not td:
                    continue                      # the default call itself
                out.append((('buffersize', b), ('cache', c), ('tempdir', td)))
    for cfg in (1, 2, None):
        if tier == 'thorough' or cfg != 2:
            out.append((('config', cfg),))
        if 'c' in accepts and (tier == 'thorough' or cfg == 2):
            out.append((('config', cfg), ('cache', False)))
    if presort != '-':
        out.append((('presorted', True),))
        out.append((('presorted', True), ('buffersize', 1), ('cache', False)))
    return out


TIER = ['quick']


def _strategy_inputs(tier, seed):
    TIER[0] = tier
    for name in OPS:
        kind, fn, presort, accepts = OPS[name]
        rnd = random.Random('%s/%s' % (seed, kind))
        for tabs in inputs_for(kind, tier, rnd):
            n = max(len(t) - 1 for t in tabs)
            for s in strategies(n, accepts, presort, tier):
                yield (name, tabs, s)


def presorted_inputs(tabs, presort):
    out = []
    for t in tabs:
        hdr = tuple(t[0])
        out.append([hdr] + ref_sort([tuple(r) for r in t[1:]], key_indices(hdr, presort), False))
    return out


_BASE = {}


def baseline(name, tabs, fn):
    k = (name, repr(tabs))
    if k not in _BASE:
        if len(_BASE) > 2000:
            _BASE.clear()
        _BASE[k] = outcome(fn([list(t) for t in tabs]))
    return _BASE[k]


def strategy_class(s, n):
    d = dict(s)
    if d.get('presorted'):
        return 'presorted'
    if 'config' in d:
        return 'config.sort_buffersize'
    b = d.get('buffersize')
    return 'in-memory' if (b is None or n < b) else 'chunked'


def run_strategy(fn, tabs, s, npasses=2):
    d = dict(s)
    kw = {}
    for k in ('buffersize', 'cache', 'presorted'):
        if k in d:
            kw[k] = d[k]
    tmp = None
    saved = petl.config.sort_buffersize
    try:
        if d.get('tempdir'):
            tmp = tempfile.mkdtemp(prefix='bcheck_c11_')
            kw['tempdir'] = tmp
        if 'config' in d:
            petl.config.sort_buffersize = d['config']
        res = fn([list(t) for t in tabs], **kw)
        outs = [outcome(res) for _ in range(npasses)]
        del res
        return outs
    finally:
        petl.config.sort_buffersize = saved
        if tmp is not None:
            shutil.rmtree(tmp, ignore_errors=True)


@group('strategy', _strategy_inputs)
def strategy(inp):
    name, tabs, s = inp
    kind, fn, presort, accepts = OPS[name]
    n = max(len(t) - 1 for t in tabs)
    if dict(s).get('presorted'):
        tabs = presorted_inputs(tabs, presort)
    base = baseline(name, tabs, fn)
    outs = run_strategy(fn, tabs, s, npasses=2 if (TIER[0] == 'thorough' or dict(s).get('cache', True)) else 1)
    cls = strategy_class(s, n)
    for p, o in enumerate(outs, 1):
        if o[:2] != base[:2]:
            raise Fail('%s/%s' % (name, cls), base[2], o[2], 'pass %d, strategy %r' % (p, s))


# ------------------------------------------------------------------------------------------------- the cache clause

class Source(etl.Table):
    """a table over a live list that counts what is read from it"""

    def __init__(self, rows):
        self.rows = rows
        self.opened = 0
        self.pulled = 0
        self.exhausted = 0

    def __iter__(self):
        self.opened += 1
        for r in self.rows:
            self.pulled += 1
            yield r
        self.exhausted += 1


EDITS = [None, (0, 'append'), (0, 'delete'), (1, 'append'), (1, 'delete')]
NEWROW = {'T': (7, 0, 'n'), 'U': (0, 'n'), 'M': (0, 'b', 7), 'LR': (7, 0, 'n'), 'UU': (0, 'n'), 'TT': (7, 0, 'n')}


def apply_edit(lists, e, kind):
    if e is None:
        return
    side, what = e
    rows = lists[side]
    if what == 'append':
        rows.append(NEWROW[kind])
    elif what == 'delete' and len(rows) > 1:
        del rows[1]


def _history_inputs(tier, seed):
    init = {'T': [(_tag(('t', 'k', 'v'), [(0, 'y'), (1, 'x'), (0, 'x')]),)],
            'U': [(_plain(('k', 'v'), [(1, 'x'), (0, 'y'), (0, 'y')]),)],
            'M': [(_plain(('id', 'variable', 'value'), [(1, 'a', 1), (0, 'a', 2), (0, 'b', 1)]),)],
            'LR': [(_tag(('t', 'k', 'v'), [(1, 'x'), (0, 'y')]), _tag(('u', 'k', 'w'), [(1, 'p'), (0, 'q'), (0, 'r')], 10))],
            'UU': [(_plain(('k', 'v'), [(1, 'x'), (0, 'y'), (0, 'z')]), _plain(('k', 'v'), [(0, 'y'), (2, 'x')]))],
            'TT': [(_tag(('t', 'k', 'v'), [(1, 'x'), (0, 'y')]), _tag(('t', 'k', 'v'), [(0, 'x'), (1, 'y')], 10))]}
    # header-only sources: an empty cache is still a cache
    init['T'] += [(_tag(('t', 'k', 'v'), []),)]
    init['U'] += [(_plain(('k', 'v'), []),)]
    if tier == 'thorough':
        init['T'] += [(_tag(('t', 'k', 'v'), [(None, 'x'), (0,)]),)]
        init['LR'] += [(_tag(('t', 'k', 'v'), []), _tag(('u', 'k', 'w'), [(0, 'q')], 10)),
                       (_tag(('t', 'k', 'v'), [(0, 'x')]), _tag(('u', 'k', 'w'), [], 10))]
        init['UU'] += [(_plain(('k', 'v'), []), _plain(('k', 'v'), [(0, 'y')]))]
    for name in OPS:
        kind, fn, presort, accepts = OPS[name]
        if 'c' not in accepts:
            continue
        nsrc = 1 if kind in ('T', 'U', 'M') else 2
        edits = [e for e in EDITS if e is None or e[0] < nsrc]
        for tabs in init[kind]:
            for cache in (True, False):
                for b in (None, 1):
                    for e2 in edits:
                        for e3 in edits:
                            yield (name, tabs, cache, b, (e2, e3))


@group('cache.histories', _history_inputs)
def cache_histories(inp):
    name, tabs, cache, b, edits = inp
    kind, fn, presort, accepts = OPS[name]
    lists = [list(t) for t in tabs]
    srcs = [Source(l) for l in lists]
    res = fn(srcs, cache=cache, buffersize=b)
    views = list(res) if isinstance(res, tuple) else [res]          # diff / unjoin / recorddiff return two tables
    first = None
    # done[t][j]: result table t has read source j to the end in an earlier pass
    done = [[False] * len(srcs) for _ in views]
    for p, e in enumerate((None,) + tuple(edits), 1):
        apply_edit(lists, e, kind)
        note = 'pass %d after edits %r' % (p, ((None,) + tuple(edits))[:p])
        got = []
        for t, v in enumerate(views):
            for s in srcs:
                s.opened = s.pulled = s.exhausted = 0
            got.append(outcome(v))
            if cache and first is not None:
                reread = [(t, j, s.opened, s.pulled) for j, s in enumerate(srcs) if done[t][j] and (s.opened or s.pulled)]
                expect(not reread, '%s/cache-true-rereads-source' % name,
                       'no read from a source this table has already read to the end', reread, note)
                if all(done[t]):               # a source that was never read to the end may legitimately be read now
                    expect(got[t][:2] == first[t][:2], '%s/cache-true-replay-differs' % name, first[t][2], got[t][2], note)
            for j, s in enumerate(srcs):
                done[t][j] = done[t][j] or s.exhausted > 0
        if not (cache and first is not None):
            ref = fn([list(l) for l in lists])
            want = [outcome(w) for w in (ref if isinstance(ref, tuple) else (ref,))]
            sub = '%s/cache-false-stale' % name if not cache else '%s/first-pass' % name
            expect([g[:2] for g in got] == [w[:2] for w in want], sub, [w[2] for w in want], [g[2] for g in got], note)
        if first is None:
            first = got
