"""python -m bcheck.main <PROP> --tier quick|thorough --seed N --json OUT [--replay JSON]"""
import argparse, importlib, json, sys, time, traceback
from . import common


def main():
    ap = argparse.ArgumentParser()
    ap.add_argument('prop')
    ap.add_argument('--tier', default='quick')
    ap.add_argument('--seed', type=int, default=0)
    ap.add_argument('--json', required=True)
    ap.add_argument('--replay')
    ap.add_argument('--group', action='append')
    a = ap.parse_args()
    t0 = time.time()
    try:
        import petl
        mod = importlib.import_module('bcheck.' + a.prop.lower())
        rec = common.Recorder(a.tier, a.seed)
        if a.replay:
            case = json.loads(a.replay)
            g = common.GROUPS[case['group']]
            rec.run_group(g, only_input=common.parse_input(case['input']))
        else:
            for name, g in list(common.GROUPS.items()):
                if g.fn.__module__ != mod.__name__:
                    continue            # groups registered by an imported sibling module
                if a.group and name not in a.group:
                    continue
                rec.run_group(g)
            if getattr(mod, 'EXHAUSTIVE', None) is not None:
                rec.exhaustive = bool(mod.EXHAUSTIVE.get(a.tier, True)) if isinstance(mod.EXHAUSTIVE, dict) else bool(mod.EXHAUSTIVE)
        rep = rec.report(getattr(mod, 'RULE', ''))
        rep['bound'] = getattr(mod, 'BOUND', {}).get(a.tier, '')
        rep['petl_file'] = petl.__file__
        rep['seconds'] = round(time.time() - t0, 2)
    except Exception:
        rep = {'fault': traceback.format_exc()[-3000:]}
    with open(a.json, 'w') as f:
        json.dump(rep, f, default=str)


if __name__ == '__main__':
    main()
