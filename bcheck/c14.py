"""C14 bounded stand-in: reshape operators are mutually inverse and cell-exact.

The reference side is plain loops over lists of tuples (C04 ordering imported from bcheck.c04 for 'sorted by key'); the
real petl functions are run on every enumerated table / argument form."""
import functools, itertools, random
import petl as etl
from . import common
from .common import group, expect, Fail
_before = set(common.GROUPS)
from .c04 import ref_lt, ref_eq          # the C04 ordering (spec side); its groups belong to C04, not to this module
for _k in set(common.GROUPS) - _before:
    del common.GROUPS[_k]

RULE = ('rectangular tables <= 3 fields x <= 3 data rows (header names c,a,b so that sorted order differs from header '
        'order); melt/recast: every split of the fields into key / variable / unused, every order of the key and of an '
        'explicit variables= list, key by name / single name / index, keys unique under the petl ordering and drawn from '
        'None / int / float / str / tuple, four value fill schemes (all distinct, all None, all equal, mixed incl. list '
        'cells), recast with inferred / explicit key, custom variable/value field names, missing=; transpose and '
        'flatten/unflatten: every table over {None,0,"a"} and every period 1..4; pivot: every table of <= 3 rows over '
        '3x2x3 cell values, 4 aggregators, column permutations, presorted, missing; unpack / unpackdict / capture / split '
        '/ splitdown: every position of the expanded field, other cells including a value EQUAL to the expanded cell, '
        'every argument form (newfields list/int/None, include_original, missing/fill, maxsplit, field by name/index); '
        'fromdicts(dicts) / fromcolumns(columns). A case = one (table, argument form) evaluation on the real operator; '
        'distinct = distinct literal inputs per group.')
BOUND = {'quick': 'tables <= 3x3 (expansion operators <= 2 rows); groups whose product exceeds ~25k cases are cut by a '
                  'seeded sample (melt-recast: every table of <= 1 data row + a 2.3% sample of the rest, ~54k; unpack / unpackdict '
                  '/ capture / split / splitdown 6k each)',
         'thorough': 'tables <= 3x3, pivot <= 4 rows (4-row tables sampled 60k), melt-recast exhaustive over the stated '
                     'alphabets (1.04M cases), expansion operators exhaustive (<= 2 rows)'}

NAMES = ('c', 'a', 'b')


def lot(t):
    return [tuple(r) for r in t]


def _cut(items, k, seed):
    items = list(items)
    if len(items) <= k:
        return items
    return random.Random(seed).sample(items, k)


def key_lt(x, y):
    return ref_lt(tuple(x), tuple(y))


def ref_sort(rows, kidx):
    def cmp(x, y):
        kx, ky = tuple(x[1][i] for i in kidx), tuple(y[1][i] for i in kidx)
        return -1 if ref_lt(kx, ky) else (1 if ref_lt(ky, kx) else x[0] - y[0])
    return [r for _, r in sorted(enumerate(rows), key=functools.cmp_to_key(cmp))]


# ------------------------------------------------------------------------------------------------ melt argument forms

def melt_forms(w):
    """(kind, keyspec, varspec, K, V): K, V = tuples of field names in the order the reference uses.
    kind: 'key' (variables inferred), 'vars' (key inferred), 'both'.  keyspec may be a str (single name), a tuple of
    names, or a tuple of ints (indices)."""
    hdr = NAMES[:w]
    out = []
    for nk in range(0, w + 1):
        for K in itertools.permutations(hdr, nk):
            rest = [f for f in hdr if f not in K]
            for nv in range(0, len(rest) + 1):
                for V in itertools.permutations(rest, nv):
                    covers = (len(K) + len(V) == w)
                    kspecs = [K, tuple(hdr.index(f) for f in K)]
                    if len(K) == 1:
                        kspecs.append(K[0])
                    vspecs = [V]
                    if len(V) == 1:
                        vspecs.append(V[0])
                    if covers and list(V) == rest and K:
                        for ks in kspecs:
                            out.append(('key', ks, None, K, V))
                    if covers and list(K) == [f for f in hdr if f not in V] and V:
                        for vs in vspecs:
                            out.append(('vars', None, vs, K, V))
                    for ks in kspecs:
                        for vs in vspecs:
                            out.append(('both', ks, vs, K, V))
    return out


def do_melt(t, form, names=None):
    kind, ks, vs, K, V = form
    kw = {}
    if names:
        kw = {'variablefield': names[0], 'valuefield': names[1]}
    if isinstance(ks, tuple):
        ks = list(ks)
    if isinstance(vs, tuple):
        vs = list(vs)
    if kind == 'key':
        return etl.melt(t, key=ks, **kw)
    if kind == 'vars':
        return etl.melt(t, variables=vs, **kw)
    return etl.melt(t, key=ks, variables=vs, **kw)


def ref_melt(t, K, V, names=('variable', 'value')):
    hdr = list(t[0])
    out = [tuple(K) + tuple(names)]
    for row in t[1:]:
        kv = tuple(row[hdr.index(f)] for f in K)
        for v in V:
            i = hdr.index(v)
            if i < len(row):  # one output row per (row, variable) cell that exists
                out.append(kv + (v, row[i]))
    return out


def _melt_inputs(tier, seed):
    cells = [None, 0, 'a']
    maxrows = 3 if tier == 'thorough' else 2
    for w in (1, 2, 3):
        hdr = NAMES[:w]
        forms = melt_forms(w)
        rows = list(itertools.product(cells, repeat=w))
        for n in range(maxrows + 1):
            bodies = list(itertools.product(rows, repeat=n))
            if len(bodies) * len(forms) > 30000:
                bodies = _cut(bodies, 30000 // len(forms), seed + n)
            for body in bodies:
                for f in forms:
                    yield ([hdr] + list(body), f)
    # short rows: the trailing cell is missing; only where every key cell exists
    for w in (2, 3):
        hdr = NAMES[:w]
        for f in melt_forms(w):
            if hdr[-1] in f[3]:
                continue
            for body in ([(0,) * (w - 1)], [tuple(range(w)), tuple('xyz'[:w - 1])], [(None,) * (w - 1), tuple(range(w))]):
                yield ([hdr] + body, f)


@group('melt.cells', _melt_inputs)
def melt_cells(inp):
    t, form = inp
    exp = ref_melt(t, form[3], form[4])
    got = lot(do_melt(t, form))
    sub = 'explicit-variables' if form[2] is not None and not isinstance(form[2], str) and len(form[2]) > 1 else 'rows'
    expect(got[:1] == exp[:1], 'header', exp[:1], got[:1])
    expect(len(got) == len(exp), 'one-row-per-cell/count', len(exp) - 1, len(got) - 1)
    expect(got == exp, 'one-row-per-cell/' + sub, exp, got)


# ------------------------------------------------------------------------------------------------ recast(melt(t))

KEY1 = [None, 0, 1.5, 'a', (0,)]
KEY2 = [None, 0, 'a']
SCHEMES = ('distinct', 'none', 'same', 'mixed')
MIXED = [None, 0, 'a', [1, 2], (0,), 1.5]


def fill(scheme, r, c):
    if scheme == 'distinct':
        return 'v%d%d' % (r, c)
    if scheme == 'none':
        return None
    if scheme == 'same':
        return 0
    return MIXED[(2 * r + c) % len(MIXED)]


def unique_keysets(nkey, n):
    alpha = KEY1 if nkey == 1 else KEY2
    keys = list(itertools.product(alpha, repeat=nkey))
    return itertools.permutations(keys, n)  # alphabets hold no two ref_eq-equal values: tuples distinct = keys unique


RECAST_FORMS = [(ke, nm, ms) for ke in (False, True) for nm in (None, ('vr', 'vl')) for ms in (None, 'M')]


def _rt_all():
    for w in (2, 3):
        for form in melt_forms(w):
            K, V = form[3], form[4]
            if not K or not V:
                continue
            for n in range(4):
                for ks in unique_keysets(len(K), n):
                    for scheme in SCHEMES:
                        for rf in RECAST_FORMS:
                            yield (w, form, ks, scheme, rf)


RT_TOTAL = 1038016   # size of the full product above (checked by the generator below)


def _rt_inputs(tier, seed):
    if tier == 'thorough':
        for x in _rt_all():
            yield x
        return
    rnd = random.Random(seed)
    p = 24000.0 / RT_TOTAL
    for x in _rt_all():
        # tables of <= 1 data row are few: keep them all; the rest is a seeded ~2.3% sample
        if len(x[2]) <= 1 or rnd.random() < p:
            yield x


def build_rt_table(w, form, ks, scheme):
    hdr = NAMES[:w]
    K = form[3]
    rows = []
    for r, kv in enumerate(ks):
        row = []
        for c, f in enumerate(hdr):
            row.append(kv[K.index(f)] if f in K else fill(scheme, r, c))
        rows.append(tuple(row))
    return [hdr] + rows


@group('roundtrip.melt-recast', _rt_inputs)
def rt_melt_recast(inp):
    w, form, ks, scheme, (key_explicit, names, missing) = inp
    t = build_rt_table(w, form, ks, scheme)
    hdr = list(t[0])
    K, V = form[3], form[4]
    m = do_melt(t, form, names)
    kw = {}
    if names:
        kw.update(variablefield=names[0], valuefield=names[1])
    if key_explicit:
        kw['key'] = list(K) if len(K) > 1 else K[0]
    if missing is not None:
        kw['missing'] = missing
    got = lot(etl.recast(m, **kw))
    sv = sorted(V)
    if len(t) == 1:
        exp = [tuple(K)]  # no data: no variable can be discovered, the key fields remain
    else:
        cols = [hdr.index(f) for f in list(K) + sv]
        rows = [tuple(r[i] for i in cols) for r in t[1:]]
        exp = [tuple(list(K) + sv)] + ref_sort(rows, list(range(len(K))))
    sub = 'explicit-variables' if form[2] is not None and not isinstance(form[2], str) and len(form[2]) > 1 else 'cells'
    expect(got[:1] == exp[:1], 'header', exp[:1], got[:1])
    expect(len(got) == len(exp), 'row-count', len(exp), len(got))
    expect(sorted(map(repr, got[1:])) == sorted(map(repr, exp[1:])), 'cells-routed/' + sub, exp, got)
    expect(got == exp, 'sorted-by-key', exp, got)
    # sampling boundary: `samplesize` counts DATA rows of the molten table; a sample that just reaches the first
    # occurrence of the last new variable must still discover every variable
    if len(t) > 1 and len(V) >= 1:
        mrows = lot(m)
        vpos = mrows[0].index(names[0] if names else 'variable')
        seen, last_first = set(), 0
        for i, r in enumerate(mrows[1:], 1):
            if r[vpos] not in seen:
                seen.add(r[vpos])
                last_first = i
        if last_first >= 1:
            got2 = lot(etl.recast(m, samplesize=last_first, **kw))
            expect(got2 == exp, 'samplesize-just-sufficient', exp, got2)


# ------------------------------------------------------------------------------------------------ transpose

def _rect(tier, seed, minw=1, cells=(None, 0, 'a')):
    for w in range(minw, 4):
        hdr = NAMES[:w]
        rows = list(itertools.product(cells, repeat=w))
        for n in range(0, 4):
            if w == 0 and n > 0:
                break
            for body in itertools.product(rows, repeat=n):
                yield [hdr] + list(body)


@group('transpose.involution', lambda tier, seed: _rect(tier, seed))
def transpose_inv(t):
    T = lot(etl.transpose(t))
    w, n = len(t[0]), len(t)
    expect(len(T) == w and all(len(r) == n for r in T), 'shape', (w, n), [len(r) for r in T])
    expect(all(T[i][j] == t[j][i] for i in range(w) for j in range(n)), 'cell-exact', None, T)
    TT = lot(etl.transpose(etl.transpose(t)))
    expect(TT == t, 'involution', t, TT)


# ------------------------------------------------------------------------------------------------ flatten / unflatten

def _flat_inputs(tier, seed):
    for t in _rect(tier, seed):
        for p in (1, 2, 3, 4):
            for form in ('seq', 'table-field', 'missing'):
                if form != 'seq' and (p + len(t)) % 2:
                    continue  # the two secondary forms on half of the cases
                yield (t, p, form)
    ragged = [[('c', 'a'), (0,), (1, 2, 3)], [('c', 'a', 'b'), (), (1,), (2, 3, 4, 5)], [('c',), (0, 1), ()]]
    for t in ragged:
        for p in (1, 2, 3, 4):
            yield (t, p, 'seq')


@group('flatten-unflatten', _flat_inputs)
def flatten_unflatten(inp):
    t, p, form = inp
    flat = [v for row in t[1:] for v in row]
    got_flat = list(etl.flatten(t))
    expect(got_flat == flat, 'flatten/row-major', flat, got_flat)
    miss = 'M' if form == 'missing' else None
    chunks = [tuple(flat[i:i + p]) for i in range(0, len(flat), p)]
    if chunks and len(chunks[-1]) < p:
        chunks[-1] = chunks[-1] + (miss,) * (p - len(chunks[-1]))
    exp = [tuple('f%d' % i for i in range(p))] + chunks
    if form == 'table-field':
        col = [('lines',)] + [(v,) for v in flat]
        got = lot(etl.unflatten(col, 'lines', p))
    elif form == 'missing':
        got = lot(etl.unflatten(etl.flatten(t), p, missing='M'))
    else:
        got = lot(etl.unflatten(etl.flatten(t), p))
    expect(got == exp, 'unflatten/chunks-of-period', exp, got)
    if all(len(r) == len(t[0]) for r in t) and p == len(t[0]):
        expect(got[1:] == lot(t[1:]), 'unflatten-flatten/identity', t[1:], got[1:])


# ------------------------------------------------------------------------------------------------ pivot

AGG = {'sum': sum, 'sorted': lambda vs: tuple(sorted(vs)), 'len': lambda vs: len(list(vs)), 'max': max}
F1V = [None, 0, 'a']
F2V = ['x', 'y']
F3V = [1, 2, 5]
PERMS = [(0, 1, 2), (2, 0, 1), (1, 2, 0)]  # positions of (f1, f2, f3) in the table


def _pivot_inputs(tier, seed):
    rows = list(itertools.product(F1V, F2V, F3V))
    out = []
    maxrows = 4 if tier == 'thorough' else 3
    for n in range(maxrows + 1):
        bodies = itertools.product(rows, repeat=n)
        if n >= 4:
            rnd = random.Random(seed + n)
            bodies = [tuple(rnd.choice(rows) for _ in range(n)) for _ in range(60000)]
        for i, body in enumerate(bodies):
            agg = sorted(AGG)[i % 4]
            perm = PERMS[(i // 4) % 3]
            form = ('plain', 'missing', 'presorted', 'f2-int', 'extra-field')[(i // 12) % 5]
            out.append((list(body), agg, perm, form))
            if n <= 2:
                for agg2 in sorted(AGG):
                    if agg2 != agg:
                        out.append((list(body), agg2, perm, 'plain'))
    return out


@group('pivot.cells', _pivot_inputs)
def pivot_cells(inp):
    body, aggname, perm, form = inp
    agg = AGG[aggname]
    if form == 'f2-int':
        body = [(a, {'x': 10, 'y': 2}[b], c) for a, b, c in body]
    names = ['r', 'k', 'v']
    width = 3 + (1 if form == 'extra-field' else 0)
    hdr = [None] * width
    for src, pos in enumerate(perm):
        hdr[pos] = names[src]
    if form == 'extra-field':
        hdr[3] = 'zz'
    rows = []
    for j, (a, b, c) in enumerate(body):
        row = [None] * width
        row[perm[0]], row[perm[1]], row[perm[2]] = a, b, c
        if form == 'extra-field':
            row[3] = 'e%d' % j
        rows.append(tuple(row))
    t = [tuple(hdr)] + rows
    kw = {}
    missing = None
    if form == 'missing':
        kw['missing'] = missing = 'M'
    if form == 'presorted':
        t = [t[0]] + ref_sort(rows, [perm[0], perm[1]])
        kw['presorted'] = True
    got = lot(etl.pivot(t, 'r', 'k', 'v', agg, **kw))
    # reference: dictionary of exactly the rows carrying each (r, c) pair
    cols = sorted(set(b for _, b, _ in body))
    rvals = []
    for a, _, _ in body:
        if not any(ref_eq(a, x) for x in rvals):
            rvals.append(a)
    rvals = [r[0] for r in ref_sort([(a,) for a in rvals], [0])]
    exp = [tuple(['r'] + cols)]
    for r in rvals:
        out = [r]
        for c in cols:
            vals = [v for a, b, v in body if a == r and b == c]
            out.append(agg(vals) if vals else missing)
        exp.append(tuple(out))
    expect(got[:1] == exp[:1], 'header', exp[:1], got[:1])
    expect(len(got) == len(exp), 'row-per-f1-value', len(exp), len(got))
    expect(got == exp, 'cell-is-aggregate-of-its-rows', exp, got)


# ------------------------------------------------------------------------------------------------ expansion operators

def _expansion_tables(special, others, maxrows, positions=None):
    """tables of width 1..3 with the expanded field 'x' at every position j; the other fields hold 'others' cells"""
    for w in (1, 2, 3):
        for j in range(w):
            hdr = tuple('x' if i == j else 'pq'[i - (i > j)] for i in range(w))
            rows = []
            for sp in special:
                for oth in itertools.product(others, repeat=w - 1):
                    row = list(oth)
                    row.insert(j, sp)
                    rows.append(tuple(row))
            for n in range(maxrows + 1):
                for body in itertools.product(rows, repeat=n):
                    yield (hdr, j, list(body))


def _others_unchanged(got, t, j, include_original, opname, nrows_map=None):
    """frame: every other field of every output row is the input row's cell, in place and in order"""
    w = len(t[0])
    keep = [i for i in range(w) if include_original or i != j]
    exp_hdr = tuple(t[0][i] for i in keep)
    pre = opname + '/' if opname else ''
    expect(tuple(got[0][:len(keep)]) == exp_hdr, pre + 'header-other-fields', exp_hdr, got[0])
    src = t[1:] if nrows_map is None else nrows_map
    expect(len(got) - 1 == len(src), pre + 'row-count', len(src), len(got) - 1)
    for g, r in zip(got[1:], src):
        e = tuple(r[i] for i in keep)
        expect(tuple(g[:len(keep)]) == e, pre + 'other-fields-unchanged', e, g)


def _exp_inputs(special, others, forms, quick_n, thorough_n):
    def gen(tier, seed):
        out = []
        for hdr, j, body in _expansion_tables(special, others, 2):
            for f in forms:
                out.append((hdr, j, body, f))
        return _cut(out, thorough_n if tier == 'thorough' else quick_n, seed)
    return gen


UNPACK_FORMS = [(nf, io, ms, by) for nf in (('u', 'v'), ('u',), 2, 3, None) for io in (False, True)
                for ms in (None, 'M') for by in ('name', 'index')]


@group('unpack', _exp_inputs([(), (1,), (1, 2), [1, 2, 3]], [None, 0, (1, 2)], UNPACK_FORMS, 6000, 10 ** 7))
def chk_unpack(inp):
    hdr, j, body, (nf, io, ms, by) = inp
    t = [hdr] + body
    field = 'x' if by == 'name' else j
    got = lot(etl.unpack(t, field, list(nf) if isinstance(nf, tuple) else nf, include_original=io, missing=ms))
    _others_unchanged(got, t, j, io, '')
    nkeep = len(hdr) - (0 if io else 1)
    if isinstance(nf, tuple):
        names = list(nf)
    elif isinstance(nf, int):
        names = ['x%d' % (i + 1) for i in range(nf)]
    else:
        names = []
    expect(list(got[0][nkeep:]) == names, 'new-field-names', names, got[0])
    for g, r in zip(got[1:], body):
        vals = list(r[j])[:len(names)]
        vals += [ms] * (len(names) - len(vals))
        expect(list(g[nkeep:]) == vals, 'unpacked-values', vals, g)


UD_FORMS = [(ks, io, ms, ss) for ks in (None, ('x',), ('y', 'x'), ('z',)) for io in (False, True) for ms in (None, 'M')
            for ss in (None, 1)]


@group('unpackdict', _exp_inputs([{}, {'x': 1}, {'y': 2}, {'x': 3, 'y': (1, 2)}, None, {'x': 0, 'y': ''}, {'x': False, 'y': None}], [None, 0, {'x': 1}], UD_FORMS,
                                 6000, 10 ** 7))
def chk_unpackdict(inp):
    hdr, j, body, (ks, io, ms, ss) = inp
    t = [hdr] + body
    kw = {}
    if ss is not None:
        kw['samplesize'] = ss
    got = lot(etl.unpackdict(t, 'x', keys=list(ks) if ks else None, includeoriginal=io, missing=ms, **kw))
    _others_unchanged(got, t, j, io, '')
    nkeep = len(hdr) - (0 if io else 1)
    if ks:
        keys = list(ks)
    else:
        seen = set()
        for r in (body if ss is None else body[:ss]):
            if isinstance(r[j], dict):
                seen |= set(r[j])
        keys = sorted(seen)
    expect(list(got[0][nkeep:]) == keys, 'new-field-names', keys, got[0])
    for g, r in zip(got[1:], body):
        vals = [(r[j][k] if isinstance(r[j], dict) and k in r[j] else ms) for k in keys]
        expect(list(g[nkeep:]) == vals, 'unpacked-values', vals, g)


CAP = {'([a-z]+)([0-9]+)': {'a1': ('a', '1'), 'bc23': ('bc', '23'), 'x-a1': ('a', '1'), 'zz': None, '': None},
       '^([a-z])': {'a1': ('a',), 'bc23': ('b',), 'x-a1': ('x',), 'zz': ('z',), '': None}}
CAP_FORMS = [(pat, io, fl, by) for pat in sorted(CAP) for io in (False, True) for fl in (None, 'fill')
             for by in ('name', 'index')]


@group('capture', _exp_inputs(['a1', 'bc23', 'x-a1', 'zz', ''], [None, 0, 'a1'], CAP_FORMS, 6000, 10 ** 7))
def chk_capture(inp):
    hdr, j, body, (pat, io, fl, by) = inp
    t = [hdr] + body
    ng = 2 if pat.count('(') == 2 else 1
    newf = ['g1', 'g2'][:ng]
    fillv = ('F1', 'F2')[:ng] if fl else None
    field = 'x' if by == 'name' else j
    res = CAP[pat]
    view = etl.capture(t, field, pat, newf, include_original=io, fill=fillv)
    nfail = None
    if fillv is None:
        for i, r in enumerate(body):
            if res[r[j]] is None:
                nfail = i
                break
    got, err = [], None
    it = iter(view)
    try:
        for row in it:
            got.append(tuple(row))
    except Exception as e:
        err = e
    sub = 'field-by-index/' if by == 'index' else ''
    if type(err).__name__ == 'ValueError' and by == 'index' and not io:
        raise Fail('field-by-index/ValueError', 'field given by index is dropped like a named one', repr(err))
    if nfail is None:
        if err is not None:
            raise Fail('' + sub + type(err).__name__, 'no exception', repr(err))
    else:
        expect(err is not None and type(err).__name__ == 'TransformError', '' + sub + 'no-match-raises-TransformError',
               'TransformError at data row %d' % nfail, repr(err))
        expect(len(got) == 1 + nfail, 'rows-before-no-match', 1 + nfail, len(got))
    src = body if nfail is None else body[:nfail]
    _others_unchanged(got, t, j, io, '', nrows_map=src)
    nkeep = len(hdr) - (0 if io else 1)
    expect(list(got[0][nkeep:]) == newf, 'new-field-names', newf, got[0])
    for g, r in zip(got[1:], src):
        e = res[r[j]]
        e = tuple(fillv) if e is None else e
        expect(tuple(g[nkeep:]) == e, 'captured-values', e, g)


SPLIT_FORMS = [(io, mx, by) for io in (False, True) for mx in (0, 1) for by in ('name', 'index')]


def ref_split(v, mx):
    return v.split('-', mx if mx else -1)


@group('split', _exp_inputs(['a-1', 'b', 'a-1-2', '', '-'], [None, 0, 'a-1'], SPLIT_FORMS, 6000, 10 ** 7))
def chk_split(inp):
    hdr, j, body, (io, mx, by) = inp
    t = [hdr] + body
    field = 'x' if by == 'name' else j
    got = lot(etl.split(t, field, '-', ['s1', 's2'], include_original=io, maxsplit=mx))
    dup = any(r[i] == r[j] for r in body for i in range(j))
    tag = 'earlier-equal-cell' if dup and not io else ''
    _others_unchanged(got, t, j, io, tag)
    nkeep = len(hdr) - (0 if io else 1)
    expect(list(got[0][nkeep:]) == ['s1', 's2'], 'new-field-names', ['s1', 's2'], got[0])
    for g, r in zip(got[1:], body):
        e = ref_split(r[j], mx)
        expect(list(g[nkeep:]) == e, 'pieces', e, g)


SD_FORMS = [(mx, by) for mx in (0, 1) for by in ('name', 'index')]


@group('splitdown', _exp_inputs(['a-1', 'b', 'a-1-2', '', '-'], [None, 0, 'a-1'], SD_FORMS, 6000, 10 ** 7))
def chk_splitdown(inp):
    hdr, j, body, (mx, by) = inp
    t = [hdr] + body
    field = 'x' if by == 'name' else j
    got = lot(etl.splitdown(t, field, '-', maxsplit=mx))
    exp = [hdr]
    for r in body:
        for piece in ref_split(r[j], mx):
            exp.append(tuple(piece if i == j else r[i] for i in range(len(hdr))))
    expect(got[:1] == exp[:1], 'header', exp[:1], got[:1])
    expect(len(got) == len(exp), 'one-row-per-piece', len(exp), len(got))
    others = lambda rows: [tuple(v for i, v in enumerate(r) if i != j) for r in rows]
    expect(others(got) == others(exp), 'other-fields-unchanged', exp, got)
    expect(got == exp, 'pieces', exp, got)


# ------------------------------------------------------------------------------------------------ dicts / columns

def _dc_inputs(tier, seed):
    yield [()]
    for t in _rect(tier, seed):
        yield t


@group('dicts-columns.roundtrip', _dc_inputs)
def dicts_columns(t):
    hdr = t[0]
    ds = list(etl.dicts(t))
    expect(ds == [dict(zip(hdr, r)) for r in t[1:]], 'dicts/cell-exact', None, ds)
    got = lot(etl.fromdicts(etl.dicts(t), header=list(hdr)))
    expect(got == t, 'fromdicts-dicts/explicit-header', t, got)
    got = lot(etl.fromdicts(list(etl.dicts(t)), header=list(hdr)))
    expect(got == t, 'fromdicts-dicts/list', t, got)
    if len(t) > 1:
        v = etl.fromdicts(etl.dicts(t))
        h = tuple(etl.header(v))
        expect(sorted(h) == sorted(hdr), 'fromdicts-dicts/discovered-fields', sorted(hdr), h)
        got = lot(etl.cut(v, *hdr)) if hdr else lot(v)
        expect(got == t, 'fromdicts-dicts/discovered-header', t, got)
    cols = etl.columns(t)
    expect(list(cols.keys()) == list(hdr), 'columns/fields', hdr, list(cols.keys()))
    for i, f in enumerate(hdr):
        expect(cols[f] == [r[i] for r in t[1:]], 'columns/cell-exact', [r[i] for r in t[1:]], cols[f])
    if hdr:
        got = lot(etl.fromcolumns(list(cols.values()), header=list(cols.keys())))
        expect(got == t, 'fromcolumns-columns', t, got)
