"""C16 bounded stand-in: pass-through views are transparent, and a tee iterated to the end leaves in its target exactly
the bytes the corresponding to* function writes for the same table and arguments -- on the real petl functions.

Reference side: the rows of the wrapped table are the literal rows of the input (a list of tuples); bytes are read with
the standard library (open / gzip.decompress / bz2.decompress / MemorySource.getvalue()); the to* side of the byte
comparison is, as the property states it, petl's own to* function called with the same table and arguments.
"""
import bz2, csv, gzip, io, itertools, logging, os, random, shutil, tempfile
from contextlib import contextmanager
import petl as etl
from petl.io.sources import MemorySource
from petl.util.materialise import cache as petl_cache
from .common import group, expect, Fail, tables

RULE = ('a case = one (view kind, small table incl. zero-field header / header-only / ragged rows, arguments, kind of '
        'target) evaluation: build the view over a literal table, iterate it to the end (twice for tees; a schedule of '
        'full and partial passes for cache), compare the yielded rows type-exactly with the literal rows, and for tees '
        'compare the target bytes with what to* writes; distinct = distinct input tuples per group')
BOUND = {'quick': 'tables <= 2 data rows, <= 2 fields, ragged +-1; tee arguments exhaustive on MemorySource, about 1950 '
                  'sampled cases on path/.gz/.bz2; progress batch sizes 1..rows+1; cache limits None,0..rows+1 x all '
                  'schedules of <= 3 full/partial passes; two interleaved cache iterators for all advance patterns of '
                  'length <= 4',
         'thorough': 'tables <= 3 data rows; about 31500 sampled file cases; cache schedules of <= 4 passes; interleaving '
                     'patterns of length <= 6'}

KINDS = ['path', 'gz', 'bz2', 'mem']
FILEKINDS = ['path', 'gz', 'bz2']
ENCS = ['utf-8', 'utf-16-le', 'latin-1']
CELLS = ['a', '', ',"', '\r\n', '\xe9', None, 1, 1.5, [1, 'a']]


@contextmanager
def workdir(needed=True):
    d = tempfile.mkdtemp(prefix='bcheck_c16_') if needed else None
    try:
        yield d
    finally:
        if d is not None:
            shutil.rmtree(d, ignore_errors=True)


class Target(object):
    SUFFIX = {'path': '', 'gz': '.gz', 'bz2': '.bz2'}

    def __init__(self, kind, d, name):
        self.kind = kind
        self.obj = MemorySource() if kind == 'mem' else os.path.join(d, name + self.SUFFIX[kind])

    def content(self):
        if self.kind == 'mem':
            v = self.obj.getvalue()
            return b'' if v is None else v
        with open(self.obj, 'rb') as f:
            raw = f.read()
        if self.kind == 'gz':
            return gzip.decompress(raw)
        if self.kind == 'bz2':
            return bz2.decompress(raw)
        return raw


def same(a, b):
    return repr(a) == repr(b)


def rows_of(view):
    return [tuple(r) for r in view]


def literal_rows(table):
    return [tuple(r) for r in table]


def share(table):
    """equal rows / non-atomic cells become ONE object: the same object then occurs in several rows"""
    pool = {}

    def one(x):
        return pool.setdefault(repr(x), x)
    return [one(tuple(one(c) for c in r)) for r in table]


def shape_tables(tier, cells):
    return list(tables(list(cells), widths=(0, 1, 2), maxrows=3 if tier == 'thorough' else 2, ragged=True))


def rand_table(rnd, cells, maxrows):
    w = rnd.choice((0, 1, 2, 2))
    hdr = tuple('f%d' % i for i in range(w))
    body = []
    for _ in range(rnd.randint(0, maxrows)):
        l = max(0, w + rnd.choice((0, 0, 0, -1, 1)))
        body.append(tuple(rnd.choice(cells) for _ in range(l)))
    return [hdr] + body


def check_tee(make_view, write_to, table, kind, name):
    """iterate the tee to the end, twice; rows and target bytes after each pass"""
    exp_rows = literal_rows(table)
    with workdir(kind != 'mem') as d:
        tg = Target(kind, d, name)
        view = make_view(tg.obj)
        ref = Target('mem', None, '')
        write_to(ref.obj)
        refbytes = ref.content()
        for p in (1, 2):
            got = rows_of(view)
            expect(same(got, exp_rows), 'rows' if p == 1 else 'rows-second-pass', exp_rows, got)
            content = tg.content()
            expect(content == refbytes, 'bytes-vs-to' if p == 1 else 'bytes-vs-to-second-pass', refbytes, content)


# ------------------------------------------------------------------------------------------------ teecsv / teetsv

def csvkw(enc, args, flag):
    d, q, m = args
    kw = {}
    for k, v in (('encoding', enc), ('delimiter', d), ('quotechar', q), ('quoting', m), ('write_header', flag)):
        if v is not None:
            kw[k] = v
    return kw


def check_teecsv(inp):
    fmt, table, flag, enc, args, kind = inp
    tee, to = (etl.teecsv, etl.tocsv) if fmt == 'csv' else (etl.teetsv, etl.totsv)
    kw = csvkw(enc, args, flag)
    check_tee(lambda tgt: tee(table, tgt, **kw), lambda tgt: to(table, tgt, **kw), table, kind, 'x.' + fmt)


CSVARGS = [(None, None, None), (';', None, csv.QUOTE_ALL), (None, "'", csv.QUOTE_NONNUMERIC), ('\t', '"', None)]


def _teecsv(tier, seed):
    rnd = random.Random(seed)
    for t in shape_tables(tier, ('a', '\r\n')):
        for flag in (None, True, False):
            for enc in ENCS:
                yield ('csv', t, flag, enc, (None, None, None), 'mem')
            yield ('tsv', t, flag, 'utf-8', (None, None, None), 'mem')
    for a, b in itertools.product(CELLS, repeat=2):
        t = [('f0', 'f1'), (a, b), (b,), (a, b, a)]
        for args in CSVARGS:
            for enc in ENCS:
                yield ('csv', t, None, enc, args, 'mem')
        yield ('tsv', t, False, 'utf-8', (None, None, None), 'mem')
    per_kind = 3000 if tier == 'thorough' else 200
    for kind in FILEKINDS:
        for _ in range(per_kind):
            yield (rnd.choice(('csv', 'tsv')), rand_table(rnd, CELLS, 3 if tier == 'thorough' else 2),
                   rnd.choice((None, True, False)), rnd.choice(ENCS), rnd.choice(CSVARGS[:3]), kind)


group('tee.csv', _teecsv)(check_teecsv)


# ------------------------------------------------------------------------------------------------ teepickle

def check_teepickle(inp):
    table, flag, protocol, kind = inp
    table = share(table)
    kw = {}
    if flag is not None:
        kw['write_header'] = flag
    if protocol is not None:
        kw['protocol'] = protocol
    check_tee(lambda tgt: etl.teepickle(table, tgt, **kw), lambda tgt: etl.topickle(table, tgt, **kw), table, kind, 'x.p')


def _teepickle(tier, seed):
    rnd = random.Random(seed + 1)
    for t in shape_tables(tier, ('a', [1])):
        for flag in (None, True, False):
            for p in (None, 2):
                yield (t, flag, p, 'mem')
    for a, b in itertools.product(CELLS, repeat=2):
        t = [('f0', 'f1'), (a, b), (b,), (a, b), (a, b, a)]
        for p in (None, -1, 0, 1, 2, 3, 4, 5):
            yield (t, None, p, 'mem')
    per_kind = 2500 if tier == 'thorough' else 150
    for kind in FILEKINDS:
        for _ in range(per_kind):
            yield (rand_table(rnd, CELLS, 3), rnd.choice((None, True, False)), rnd.choice((None, 0, 2, 4)), kind)


group('tee.pickle', _teepickle)(check_teepickle)


# ------------------------------------------------------------------------------------------------ teetext

TEMPLATES = {0: ['x\n', ''], 1: ['{f0}\n', 'x', '{f0!r}|{f0}\r\n'], 2: ['{f0}\n', '{f0}|{f1}\r\n', '{f1!r},{f0!s}']}
PROLOGUES = [None, '', 'P\xe9\n']
EPILOGUES = [None, 'E', '\r\n']


def check_teetext(inp):
    table, enc, template, prologue, epilogue, kind = inp
    kw = {'template': template}
    for k, v in (('encoding', enc), ('prologue', prologue), ('epilogue', epilogue)):
        if v is not None:
            kw[k] = v
    check_tee(lambda tgt: etl.teetext(table, tgt, **kw), lambda tgt: etl.totext(table, tgt, **kw), table, kind, 'x.txt')


def _teetext(tier, seed):
    rnd = random.Random(seed + 2)
    for t in shape_tables(tier, ('a', '\xe9\r\n')):
        for template in TEMPLATES[len(t[0])]:
            for pro in PROLOGUES:
                for epi in EPILOGUES:
                    yield (t, 'utf-8', template, pro, epi, 'mem')
            for enc in ENCS[1:]:
                yield (t, enc, template, 'P\xe9\n', 'E', 'mem')
    for a, b in itertools.product(CELLS, repeat=2):
        yield ([('f0', 'f1'), (a, b), (b,), (a, b, a)], 'utf-8', '{f1!r},{f0!s}\n', None, None, 'mem')
    per_kind = 2500 if tier == 'thorough' else 150
    for kind in FILEKINDS:
        for _ in range(per_kind):
            t = rand_table(rnd, CELLS, 3 if tier == 'thorough' else 2)
            yield (t, rnd.choice(ENCS), rnd.choice(TEMPLATES[len(t[0])]), rnd.choice(PROLOGUES), rnd.choice(EPILOGUES), kind)


group('tee.text', _teetext)(check_teetext)


# ------------------------------------------------------------------------------------------------ teehtml

def _style(spec):
    if spec == '@rowfn':
        return lambda row: 'n%d' % len(row)
    if spec == '@dict':
        return {'f0': 'color: red', 'f1': lambda v: 'v-%s' % type(v).__name__}
    if spec == '@cellfn':
        return lambda v: 'c-%s' % type(v).__name__
    return spec


def check_teehtml(inp):
    table, enc, caption, lineterminator, index_header, truncate, tr_style, td_styles, kind = inp
    kw = {}
    for k, v in (('encoding', enc), ('caption', caption), ('lineterminator', lineterminator),
                 ('index_header', index_header), ('truncate', truncate)):
        if v is not None:
            kw[k] = v

    def kwargs():
        k = dict(kw)
        if tr_style is not None:
            k['tr_style'] = _style(tr_style)
        if td_styles is not None:
            k['td_styles'] = _style(td_styles)
        return k
    check_tee(lambda tgt: etl.teehtml(table, tgt, **kwargs()), lambda tgt: etl.tohtml(table, tgt, **kwargs()),
              table, kind, 'x.html')


HTML_OPTS = [(None, None, None, None, None, None), ('c\xe9p', None, None, None, None, None),
             (None, '\r\n', None, None, None, None), (None, None, True, None, None, None),
             (None, None, None, 1, None, None), (None, None, None, None, 'color: blue', None),
             (None, None, None, None, '@rowfn', None), (None, None, None, None, None, 'font: x'),
             (None, None, None, None, None, '@dict'), (None, None, None, None, None, '@cellfn'),
             ('cap', '\r\n', True, 2, '@rowfn', '@dict')]


def _teehtml(tier, seed):
    rnd = random.Random(seed + 3)
    for t in shape_tables(tier, ('a\xe9<', 1)):
        for o in HTML_OPTS:
            yield (t, 'utf-8', o[0], o[1], o[2], o[3], o[4], o[5], 'mem')
        for enc in ENCS[1:]:
            yield (t, enc, 'c\xe9p', None, None, None, None, None, 'mem')
    for a, b in itertools.product(CELLS, repeat=2):
        yield ([('f0', 'f1'), (a, b), (b,), (a, b, a)], 'utf-8', None, None, None, None, None, None, 'mem')
    per_kind = 2500 if tier == 'thorough' else 150
    for kind in FILEKINDS:
        for _ in range(per_kind):
            o = rnd.choice([x for x in HTML_OPTS if x[3] is None])
            yield (rand_table(rnd, CELLS, 3 if tier == 'thorough' else 2), rnd.choice(ENCS)) + o + (kind,)


group('tee.html', _teehtml)(check_teehtml)


# ------------------------------------------------------------------------------------------------ progress / clock / wrap

_LOGGER = logging.getLogger('bcheck.c16.progress')
_LOGGER.propagate = False
_LOGGER.addHandler(logging.NullHandler())


def check_passthrough(inp):
    which, table, batchsize, prefix = inp
    exp = literal_rows(table)
    if which == 'progress':
        out = io.StringIO()
        view = etl.progress(table, batchsize, prefix, out) if prefix is not None else etl.progress(table, batchsize, out=out)
    elif which == 'log_progress':
        view = etl.log_progress(table, batchsize, prefix or '', _LOGGER)
    elif which == 'clock':
        view = etl.clock(table)
    elif which == 'clock2':
        view = etl.clock(etl.clock(table))
    elif which == 'wrap':
        view = etl.wrap(table)
    else:
        raise ValueError(which)
    for p in (1, 2):
        got = [r for r in view]
        expect(same([tuple(r) for r in got], exp), which + ('/rows' if p == 1 else '/rows-second-pass'), exp, got)


def _passthrough(tier, seed):
    ts = shape_tables(tier, ('a', None))
    ts += [[('f0', 'f1')] + [(i, c) for i, c in enumerate(CELLS[:k])] for k in (3, 5, 9)]
    for t in ts:
        for b in range(1, len(t) + 2):
            for prefix in (None, 'p: '):
                yield ('progress', t, b, prefix)
            yield ('log_progress', t, b, None)
        yield ('log_progress', t, 1, 'p: ')
        for which in ('clock', 'clock2', 'wrap'):
            yield (which, t, None, None)


group('passthrough', _passthrough)(check_passthrough)


# ------------------------------------------------------------------------------------------------ cache

def check_cache(inp):
    table, n, schedule = inp
    exp = literal_rows(table)
    view = petl_cache(table) if n == 'default' else petl_cache(table, n)
    for i, step in enumerate(schedule):
        it = iter(view)
        if step == 'F':
            got = [tuple(r) for r in it]
            expect(same(got, exp), 'full-pass', exp, (i, got))
        else:
            got = []
            for _ in range(step):
                try:
                    got.append(tuple(next(it)))
                except StopIteration:
                    break
            if hasattr(it, 'close'):
                it.close()
            expect(same(got, exp[:step]), 'partial-pass', exp[:step], (i, got))
    got = [tuple(r) for r in view]
    expect(same(got, exp), 'final-pass', exp, got)


def _cache_tables(tier):
    ts = [[('f0', 'f1')], [()], [('f0', 'f1'), ('a', 1)], [('f0', 'f1'), ('a', 1), ('b',)],
          [('f0', 'f1'), ('a', 1), ('b',), ('a', 1)], [('f0',), (1,), (2,), (3,), (4, 5)]]
    return ts


def _cache(tier, seed):
    steps = ['F', 0, 1, 2, 3]
    maxlen = 4 if tier == 'thorough' else 3
    for t in _cache_tables(tier):
        for n in ['default', None] + list(range(0, len(t) + 2)):
            for k in range(0, maxlen + 1):
                for sched in itertools.product(steps, repeat=k):
                    yield (t, n, sched)


group('cache', _cache)(check_cache)


def check_cache_interleaved(inp):
    """two iterators over one cache view, advanced in the given pattern, then both drained, then one more pass:
    every one of them must yield exactly the wrapped table's rows (known candidate F9)"""
    table, n, pattern = inp
    exp = literal_rows(table)
    view = petl_cache(table, n)
    its = {'A': iter(view), 'B': iter(view)}
    got = {'A': [], 'B': []}
    done = set()
    for who in pattern:
        if who in done:
            continue
        try:
            got[who].append(tuple(next(its[who])))
        except StopIteration:
            done.add(who)
    for who in 'AB':
        got[who].extend(tuple(r) for r in its[who])
    expect(same(got['A'], exp) and same(got['B'], exp), 'interleaved-iterators', exp, got)
    later = [tuple(r) for r in view]
    expect(same(later, exp), 'pass-after-interleaving', exp, later)


def _cache_interleaved(tier, seed):
    maxlen = 6 if tier == 'thorough' else 4
    for t in _cache_tables(tier)[:5]:
        for n in [None] + list(range(0, len(t) + 2)):
            for k in range(2, maxlen + 1):
                for pat in itertools.product('AB', repeat=k):
                    if 'A' in pat and 'B' in pat and pat[0] == 'A':
                        yield (t, n, ''.join(pat))


group('cache.interleaved', _cache_interleaved)(check_cache_interleaved)
