"""C19 bounded stand-in: the failonerror policy decides exactly what a failing conversion becomes.

Every case builds a small table whose cells name their own position ('a2' = field a, data row 2), a converter / mapper
that fails on exactly the chosen positions (by raising a natural KeyError / IndexError / ValueError / TypeError /
AttributeError / ZeroDivisionError or a custom exception), and steps through the real petl view with next(): what is
delivered and what is raised, and when, is compared with a reference computed from the property statement."""
import itertools, random
from collections import OrderedDict
import petl as etl
import petl.config as config
from .common import group, expect, Fail

RULE = ('tables of n data rows x 3 fields (id, a, b); EVERY subset of failing positions (cells of the converted fields for '
        'convert / fieldmap, rows for rowmap / rowmapmany) x policy in (False, True, "inline") x how the policy is given '
        '(argument; argument with petl.config.failonerror set to a different policy; argument omitted, config set; '
        'failonerror=None, config set) x every call form of the operator (convert: dict / list / field / fields / index '
        'spec, where= callable and expression, pass_row, dict converter beside a failing one, method name, method with '
        'arguments, format, interpolate, convertall, suffix notation; fieldmap: (field, fn), fn(rec), expression, '
        '(field, dict), index; rowmap: list result, generator function failing lazily after 0/1 cells, map object, '
        'failure at call, a result that is not iterable; rowmapmany: generator failing after 0/1/2 produced rows, '
        'failure at call, lazily failing iterator, result None, a produced item that is not a row); exception kind and errorvalue drawn (seeded) per case, plus an exhaustive kind x errorvalue cross on '
        '2-row tables; a case = one view stepped with next() to the end / to the exception; distinct = distinct literal '
        'inputs; non-trivial = at least one failing position (about 90% of cases)')
BOUND = {'quick': 'n <= 3 data rows, all subsets of failing positions (2^(2n) cells / 2^n rows), all policies / ways / forms',
         'thorough': 'n <= 4 data rows, all subsets of failing positions, all policies / ways / forms'}

POLICIES = (False, True, 'inline')
WAYS = ('arg', 'arg-over-config', 'config', 'none-config')


class Boom(Exception):
    pass


class Boom2(Exception):
    """an exception whose constructor does not follow the Exception(*args) convention"""
    def __init__(self, token, why):
        Exception.__init__(self, 'boom2 %s %s' % (token, why))
        self.token, self.why = token, why


KINDS = ('KeyError', 'IndexError', 'ValueError', 'TypeError', 'AttributeError', 'ZeroDivisionError', 'Boom', 'Boom2')
EXC = {'KeyError': KeyError, 'IndexError': IndexError, 'ValueError': ValueError, 'TypeError': TypeError,
       'AttributeError': AttributeError, 'ZeroDivisionError': ZeroDivisionError, 'Boom': Boom, 'Boom2': Boom2}
ERRORVALUES = ('<omitted>', 'ERR', 0)


def trigger(kind, token):
    if kind == 'KeyError':
        return {}[token]
    if kind == 'IndexError':
        return [][1]
    if kind == 'ValueError':
        return int('x%s' % token)
    if kind == 'TypeError':
        return None + 1
    if kind == 'AttributeError':
        return None.nothing
    if kind == 'ZeroDivisionError':
        return 1 // 0
    if kind == 'Boom':
        raise Boom(token)
    raise Boom2(token, 'why')


def kind_of(kind, r, c):
    """'mix' gives every failing position its own exception kind"""
    return KINDS[(3 * r + c) % len(KINDS)] if kind == 'mix' else kind


def subsets(items):
    items = list(items)
    for k in range(len(items) + 1):
        for s in itertools.combinations(items, k):
            yield s


class Policy(object):
    """apply a policy the stated way; restores petl.config.failonerror on exit"""
    def __init__(self, policy, way, salt=0):
        self.policy, self.way, self.salt = policy, way, salt

    def __enter__(self):
        self.saved = config.failonerror
        others = [p for p in POLICIES if p != self.policy]
        if self.way == 'arg':
            return {'failonerror': self.policy}
        if self.way == 'arg-over-config':
            config.failonerror = others[self.salt % 2]
            return {'failonerror': self.policy}
        config.failonerror = self.policy
        return {} if self.way == 'config' else {'failonerror': None}

    def __exit__(self, *a):
        config.failonerror = self.saved
        return False


def step(view, nmax=64):
    """-> (rows delivered, exception or None).  Construction and iter() happen in the caller's try as well."""
    rows, err = [], None
    try:
        it = iter(view)
        for _ in range(nmax):
            try:
                rows.append(next(it))
            except StopIteration:
                break
    except Exception as e:
        err = e
    return rows, err


def is_exc(x, kind, token=None):
    if type(x) is not EXC[kind]:
        return False
    if kind == 'Boom' and token is not None:
        return x.args == (token,)
    if kind == 'Boom2' and token is not None:
        return x.token == token
    return True


def check_run(op, rows, err, header, exp_rows, policy, inline_at='cell'):
    """exp_rows: list of expected data rows; a cell / row may be the marker ('!', kind, token) = 'fails here'.
    Under False the marker has already been replaced by the caller (errorvalue / dropped)."""
    def fails_in(row):
        return [c for c in row if isinstance(c, tuple) and len(c) == 3 and c[0] == '!']
    first = None
    for i, r in enumerate(exp_rows):
        if (isinstance(r, tuple) and len(r) == 3 and r[0] == '!') or fails_in(r):
            first = i
            break
    pol = {False: 'false', True: 'true', 'inline': 'inline'}[policy]
    if policy is not True or first is None:
        if err is not None:
            raise Fail('%s/%s/raised' % (op, pol), 'nothing raised', repr(err))
    expect(rows[:1] == [tuple(header)], '%s/%s/header' % (op, pol), tuple(header), rows[:1])
    got = rows[1:]
    if policy is True and first is not None:
        exp = exp_rows[:first]
        expect(err is not None, '%s/true/not-raised' % op, 'exception at data row %d' % first, got)
        expect(got[:first] == exp and len(got) >= first, '%s/true/earlier-rows-not-delivered' % op, exp, got)
        expect(len(got) == first, '%s/true/raised-late' % op, exp, got)
        f = exp_rows[first]
        cands = [f] if (len(f) == 3 and f[0] == '!') else fails_in(f)
        expect(any(is_exc(err, k, tok) for _, k, tok in cands), '%s/true/wrong-exception' % op, cands, repr(err))
        return
    expect(len(got) == len(exp_rows), '%s/%s/row-count' % (op, pol), exp_rows, got)
    for g, e in zip(got, exp_rows):
        if isinstance(e, tuple) and len(e) == 3 and e[0] == '!':   # a whole failing row delivered inline
            ok = (isinstance(g, tuple) and len(g) >= 1 and is_exc(g[0], e[1], e[2])
                  and sum(isinstance(c, BaseException) for c in g) == 1)
            expect(ok, '%s/inline/exception-row' % op, e, g)
            continue
        expect(isinstance(g, tuple) and len(g) == len(e), '%s/%s/row-shape' % (op, pol), e, g)
        for gc, ec in zip(g, e):
            if isinstance(ec, tuple) and len(ec) == 3 and ec[0] == '!':
                expect(is_exc(gc, ec[1], ec[2]), '%s/inline/exception-cell' % op, ec, gc)
            else:
                expect(type(gc) is type(ec) and gc == ec, '%s/%s/other-cells-identical' % (op, pol), e, g)


def draw(rnd):
    return rnd.choice(KINDS + ('mix', 'mix')), rnd.choice(ERRORVALUES)


def nmax(tier):
    return 4 if tier == 'thorough' else 3


# ------------------------------------------------------------------------------------------------------ convert

# form -> (converted columns, columns that may fail)
CFORMS = OrderedDict([
    ('dict-spec', (1, 2)), ('list-spec', (1, 2)), ('field-fn', (1,)), ('fields-fn', (1, 2)), ('index-key', (2,)),
    ('where', (1, 2)), ('where-expr', (1,)), ('pass_row', (1, 2)), ('dictconv', (2,)), ('method', (1,)),
    ('methargs', (1,)), ('format', (1,)), ('interpolate', (1,)), ('convertall', (1, 2)), ('setitem', (1,)),
])
DATA_DRIVEN = {'method': 'AttributeError', 'methargs': 'AttributeError', 'format': 'ValueError', 'interpolate': 'TypeError'}


def _convert_inputs(tier, seed):
    rnd = random.Random(seed)
    salt = 0
    for n in range(nmax(tier) + 1):
        for form, cols in CFORMS.items():
            for fails in subsets([(r, c) for r in range(n) for c in cols]):
                for policy in POLICIES:
                    for way in WAYS:
                        kind, ev = draw(rnd)
                        salt += 1
                        yield (form, n, fails, policy, way, salt % 2, kind, ev)
    # exhaustive kind x errorvalue cross on the plain form
    for fails in subsets([(r, c) for r in range(2) for c in (1, 2)]):
        for policy in POLICIES:
            for kind in KINDS + ('mix',):
                for ev in ERRORVALUES:
                    yield ('dict-spec', 2, fails, policy, 'arg', 0, kind, ev)


@group('convert', _convert_inputs)
def chk_convert(inp):
    form, n, fails, policy, way, salt, kind, ev = inp
    fails = set(fails)
    names = ('id', 'a', 'b')
    tok = lambda r, c: '%s%d' % (names[c], r)
    if form in DATA_DRIVEN:
        kind = DATA_DRIVEN[form]
    kof = lambda r, c: kind_of(kind, r, c)
    # the source table
    t = [names]
    for r in range(n):
        row = [r, tok(r, 1), tok(r, 2)]
        if form in ('method', 'methargs', 'format') and (r, 1) in fails:
            row[1] = (100 + r) if (r % 2 == 0 or form == 'format') else None    # not a str (an int, or None): .upper() / .replace() / '{:>4s}' fail
        if form == 'interpolate':
            row[1] = tok(r, 1) if (r, 1) in fails else 100 + r   # '%d' % str fails
        t.append(tuple(row))
    failtok = dict((tok(r, c), kof(r, c)) for r, c in fails)

    def f(v):
        if v in failtok:
            return trigger(failtok[v], v)
        return 'C:%s' % (v,)

    def f2(v, row):
        if tok(row.id, 1) == row.a and v in failtok:      # also checks that the row handed over is the row of v
            return trigger(failtok[v], v)
        return 'C:%s:%s' % (v, row.id)

    ok = lambda v, r: 'C:%s' % (v,)
    skip_rows = set()
    with Policy(policy, way, salt) as kw:
        if ev != '<omitted>':
            kw['errorvalue'] = ev
        if form == 'dict-spec':
            mk = lambda: etl.convert(t, {'a': f, 'b': f}, **kw)
        elif form == 'list-spec':
            mk = lambda: etl.convert(t, [None, f, f], **kw)
        elif form == 'field-fn':
            mk = lambda: etl.convert(t, 'a', f, **kw)
        elif form == 'fields-fn':
            mk = lambda: etl.convert(t, ('a', 'b'), f, **kw)
        elif form == 'index-key':
            mk = lambda: etl.convert(t, {2: f}, **kw)
        elif form == 'where':
            skip_rows = set([1])
            mk = lambda: etl.convert(t, {'a': f, 'b': f}, where=lambda rec: rec.id != 1, **kw)
        elif form == 'where-expr':
            skip_rows = set([1])
            mk = lambda: etl.convert(t, 'a', f, where='{id} != 1', **kw)
        elif form == 'pass_row':
            ok = lambda v, r: 'C:%s:%s' % (v, r)
            mk = lambda: etl.convert(t, {'a': f2, 'b': f2}, pass_row=True, **kw)
        elif form == 'dictconv':
            mk = lambda: etl.convert(t, {'a': {'a0': 'A0', 'a2': ['unhashable']}, 'b': f}, **kw)
        elif form == 'method':
            ok = lambda v, r: v.upper()
            mk = lambda: etl.convert(t, 'a', 'upper', **kw)
        elif form == 'methargs':
            ok = lambda v, r: v.replace('a', 'Q')
            mk = lambda: etl.convert(t, 'a', 'replace', 'a', 'Q', **kw)
        elif form == 'format':
            ok = lambda v, r: '{:>4s}'.format(v)
            mk = lambda: etl.format(t, 'a', '{:>4s}', **kw)
        elif form == 'interpolate':
            ok = lambda v, r: '%d' % v
            mk = lambda: etl.interpolate(t, 'a', '%d', **kw)
        elif form == 'convertall':
            mk = lambda: etl.convertall(t, f, **kw)
        elif form == 'setitem':
            def mk():
                v = etl.convert(t, **kw)
                v['a'] = f
                return v
        def build_and_step():
            return step(mk())
        rows, err = build_and_step()
    # reference
    cols = {'convertall': (0, 1, 2), 'dictconv': (1, 2)}.get(form, CFORMS[form])
    exp_rows = []
    for r in range(n):
        src = t[1 + r]
        if r in skip_rows:
            exp_rows.append(tuple(src))
            continue
        out = []
        for c in range(3):
            if c not in cols:
                out.append(src[c])
            elif (r, c) in fails:
                token = src[c] if form not in DATA_DRIVEN else None
                if policy is False:
                    out.append(None if ev == '<omitted>' else ev)
                else:
                    out.append(('!', kof(r, c), token))
            elif form == 'dictconv' and c == 1:
                out.append({'a0': 'A0', 'a2': ['unhashable']}.get(src[c], src[c]))
            else:
                out.append(ok(src[c], r))
        exp_rows.append(tuple(out))
    check_run(form, rows, err, names, exp_rows, policy)


# ------------------------------------------------------------------------------------------------------ fieldmap

FMFORMS = ('field-fn+rec-fn', 'expr+field-fn', 'field-dict+rec-fn', 'index+field-fn')


def _fieldmap_inputs(tier, seed):
    rnd = random.Random(seed + 1)
    salt = 0
    for n in range(nmax(tier) + 1):
        for form in FMFORMS:
            for fails in subsets([(r, c) for r in range(n) for c in (1, 2)]):
                for policy in POLICIES:
                    for way in WAYS:
                        kind, ev = draw(rnd)
                        salt += 1
                        yield (form, n, fails, policy, way, salt % 2, kind, ev)


@group('fieldmap', _fieldmap_inputs)
def chk_fieldmap(inp):
    form, n, fails, policy, way, salt, kind, ev = inp
    fails = set(fails)
    names = ('id', 'a', 'b')
    tok = lambda r, c: '%s%d' % (names[c], r)
    kinds = {}
    t = [names]
    for r in range(n):
        row = [r, tok(r, 1), tok(r, 2)]
        for c in (1, 2):
            kinds[(r, c)] = kind_of(kind, r, c)
        if form == 'expr+field-fn':
            kinds[(r, 1)] = 'AttributeError'
            if (r, 1) in fails:
                row[1] = 100 + r                      # {a}.upper() on an int
        if form == 'field-dict+rec-fn':
            kinds[(r, 1)] = 'TypeError'
            if (r, 1) in fails:
                row[1] = ['unhashable', r]            # `k in d` on a list
        t.append(tuple(row))
    failtok = dict((tok(r, c), kinds[(r, c)]) for r, c in fails)

    def f(v):
        if v in failtok:
            return trigger(failtok[v], v)
        return 'F:%s' % (v,)

    def frec(rec):
        if rec['b'] in failtok:
            return trigger(failtok[rec['b']], rec['b'])
        return 'R:%s:%s' % (rec['id'], rec.b)

    m = OrderedDict()
    m['ident'] = 'id'
    if form == 'field-fn+rec-fn':
        m['A'] = 'a', f
        m['B'] = frec
        okA = lambda v: 'F:%s' % (v,)
    elif form == 'expr+field-fn':
        m['A'] = '{a}.upper()'
        m['B'] = 'b', f
        okA = lambda v: v.upper()
    elif form == 'field-dict+rec-fn':
        m['A'] = 'a', {'a0': 'A0'}
        m['B'] = frec
        okA = lambda v: {'a0': 'A0'}.get(v, v)
    else:
        m['A'] = 1
        m['B'] = 'b', f
        okA = lambda v: v
    m['copy'] = 'b'
    data_driven = form in ('expr+field-fn', 'field-dict+rec-fn')
    with Policy(policy, way, salt) as kw:
        if ev != '<omitted>':
            kw['errorvalue'] = ev
        rows, err = step(etl.fieldmap(t, m, **kw))
    exp_rows = []
    for r in range(n):
        src = t[1 + r]
        out = [src[0]]
        for c in (1, 2):
            can_fail = not (form == 'index+field-fn' and c == 1)
            if (r, c) in fails and can_fail:
                token = None if (data_driven and c == 1) else src[c]
                if policy is False:
                    out.append(None if ev == '<omitted>' else ev)
                else:
                    out.append(('!', kinds[(r, c)], token))
            elif c == 1:
                out.append(okA(src[1]))
            elif form in ('field-fn+rec-fn', 'field-dict+rec-fn'):
                out.append('R:%s:%s' % (src[0], src[2]))
            else:
                out.append('F:%s' % (src[2],))
        out.append(src[2])
        exp_rows.append(tuple(out))
    check_run(form, rows, err, ('ident', 'A', 'B', 'copy'), exp_rows, policy)


# ------------------------------------------------------------------------------------------------------ rowmap

RMFORMS = ('list', 'tuple-at-call', 'gen-lazy-0', 'gen-lazy-1', 'map-lazy', 'iter-lazy', 'not-iterable')


def _rowmap_inputs(tier, seed):
    rnd = random.Random(seed + 2)
    salt = 0
    for n in range(nmax(tier) + 2):
        for form in RMFORMS:
            for fails in subsets(range(n)):
                for policy in POLICIES:
                    for way in WAYS:
                        kind, _ = draw(rnd)
                        salt += 1
                        yield (form, n, fails, policy, way, salt % 2, kind)


@group('rowmap', _rowmap_inputs)
def chk_rowmap(inp):
    form, n, fails, policy, way, salt, kind = inp
    fails = set(fails)
    names = ('id', 'a', 'b')
    t = [names] + [(r, 'a%d' % r, 'b%d' % r) for r in range(n)]
    if form == 'not-iterable':
        kind = 'TypeError'                   # the mapper returns None for a failing row: tuple(None) fails
    kof = lambda r: kind_of(kind, r, 1)

    def boom(row):
        return trigger(kof(row[0]), 'a%d' % row[0])

    def m_none(row):
        return None if row.id in fails else m_list(row)

    def m_list(row):
        if row.id in fails:
            boom(row)
        return [row.id, 'M:' + row.a, row['b']]

    def m_tuple(row):
        return (row.id, ('M:' + row.a) if row.id not in fails else boom(row), row['b'])

    def m_gen0(row):
        if row.id in fails:
            boom(row)
        yield row.id
        yield 'M:' + row.a
        yield row['b']

    def m_gen1(row):
        yield row.id
        if row.id in fails:
            boom(row)
        yield 'M:' + row.a
        yield row['b']

    def m_map(row):
        def cell(i):
            if i == 1 and row.id in fails:
                boom(row)
            return ('M:' + row[i]) if i == 1 else row[i]
        return map(cell, range(3))

    def m_iter(row):
        return iter(m_gen1(row))

    mapper = {'not-iterable': m_none, 'list': m_list, 'tuple-at-call': m_tuple, 'gen-lazy-0': m_gen0, 'gen-lazy-1': m_gen1, 'map-lazy': m_map,
              'iter-lazy': m_iter}[form]
    hdr = ('ident', 'A', 'B')
    with Policy(policy, way, salt) as kw:
        rows, err = step(etl.rowmap(t, mapper, header=list(hdr), **kw))
    exp_rows = []
    for r in range(n):
        if r in fails:
            if policy is False:
                continue                     # the failing row is dropped
            exp_rows.append(('!', kof(r), None if form == 'not-iterable' else 'a%d' % r))
        else:
            exp_rows.append((r, 'M:a%d' % r, 'b%d' % r))
    check_run(form, rows, err, hdr, exp_rows, policy)


# ------------------------------------------------------------------------------------------------------ rowmapmany

RMMFORMS = ('gen-pre0', 'gen-pre1', 'gen-pre2', 'at-call', 'lazy-iter', 'returns-none', 'bad-row-after-1')


def _rowmapmany_inputs(tier, seed):
    rnd = random.Random(seed + 3)
    salt = 0
    for n in range(nmax(tier) + 2):
        for form in RMMFORMS:
            for fails in subsets(range(n)):
                for policy in POLICIES:
                    for way in WAYS:
                        kind, _ = draw(rnd)
                        salt += 1
                        yield (form, n, fails, policy, way, salt % 2, kind)


@group('rowmapmany', _rowmapmany_inputs)
def chk_rowmapmany(inp):
    form, n, fails, policy, way, salt, kind = inp
    fails = set(fails)
    names = ('id', 'a', 'b')
    t = [names] + [(r, 'a%d' % r, 'b%d' % r) for r in range(n)]
    if form in ('returns-none', 'bad-row-after-1'):
        kind = 'TypeError'                   # iterating None / turning a non-iterable produced item into a row fails
    kof = lambda r: kind_of(kind, r, 2)
    pre = {'gen-pre0': 0, 'gen-pre1': 1, 'gen-pre2': 2, 'at-call': 0, 'lazy-iter': 1, 'returns-none': 0,
           'bad-row-after-1': 1}[form]

    def good(r):
        """rows produced for a non-failing source row: r % 3 of them (0, 1 or 2), so that empty expansions occur"""
        return [(r, 'x%d' % k, 'b%d' % r) for k in range((r + 2) % 3)]

    def boom(row):
        return trigger(kof(row[0]), 'b%d' % row[0])

    def g_gen(row):
        if row.id in fails:
            for k in range(pre):
                yield [row.id, 'pre%d' % k, row.b]
            boom(row)
            yield [row.id, 'never', row.b]
        for o in good(row.id):
            yield o

    def g_call(row):
        if row.id in fails:
            boom(row)
        return good(row.id)

    def g_lazy(row):
        if row.id not in fails:
            return good(row.id)

        def cell(k):
            if k == pre:
                boom(row)
            return (row.id, 'pre%d' % k, row.b)
        return map(cell, range(pre + 2))

    def g_none(row):
        return None if row.id in fails else good(row.id)

    def g_badrow(row):
        if row.id in fails:
            yield [row.id, 'pre0', row.b]
            yield 12345                      # not a row
            yield [row.id, 'never', row.b]
        for o in good(row.id):
            yield o

    gen = {'at-call': g_call, 'lazy-iter': g_lazy, 'returns-none': g_none, 'bad-row-after-1': g_badrow}.get(form, g_gen)
    hdr = ('ident', 'what', 'B')
    with Policy(policy, way, salt) as kw:
        rows, err = step(etl.rowmapmany(t, gen, header=list(hdr), **kw))
    exp_rows = []
    for r in range(n):
        if r in fails:
            for k in range(pre):
                exp_rows.append((r, 'pre%d' % k, 'b%d' % r))   # rows produced before the failure are kept
            if policy is not False:
                exp_rows.append(('!', kof(r), 'b%d' % r))
        else:
            exp_rows.extend(good(r))
    check_run(form, rows, err, hdr, exp_rows, policy)
