exec(open('shortlist.py').read().split('# non-vacuity')[0])
import itertools
# finite-scope search for a countermodel of the canary (wrong tie-break): K=2, lengths <= 2
for L0, L1 in itertools.product([1,2],[1,2]):
    sv = Solver(); sv.set('timeout', 60000); sv.add(ORD)
    sv.add(K == 2, ln[0] == L0, ln[1] == L1, S['m'] == 2, S['orig'][0] == 0, S['orig'][1] == 1)
    sv.add(pre, S['pos'][ts] < ln[ts])
    def GE3(k1,t1,q1,k2,t2,q2): return Or(LT(k1,k2), And(EQ(k1,k2), Or(t1 > t2, And(t1 == t2, q1 < q2))))
    tt, qq = Ints('tt qq')
    sv.add(unread(S1,tt,qq), Not(GE3(key(e), ts, eq_, key(seq[tt][qq]), tt, qq)))   # skolemised negated goal
    t0=time.time(); r = sv.check(); print((L0,L1), r, '%.2fs'%(time.time()-t0))
    if r == sat:
        m_ = sv.model(); print('  chosen slot', m_.eval(ss), 'iterable', m_.eval(ts), 'witness unread', m_.eval(tt), m_.eval(qq)); break
