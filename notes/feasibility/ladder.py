from z3 import *
import time
# Value classes
Cls, (NONE, NUM, BYTES, TEXT, DATE, DATETIME, TIME, SEQ) = EnumSort('Cls', ['NONE','NUM','BYTES','TEXT','DATE','DATETIME','TIME','SEQ'])
V = DeclareSort('V')
cls = Function('cls', V, Cls)
num = Function('num', V, RealSort())           # numeric value for NUM
nlt = Function('nlt', V, V, BoolSort())        # native < within same non-NUM class (strict total order per class)
neq = Function('neq', V, V, BoolSort())        # python == (within same class)
# type-name rank per _typestr: date < datetime < str(bytes) < time < tuple < unicode(text)
def rank(c):
    return If(c==DATE,0, If(c==DATETIME,1, If(c==BYTES,2, If(c==TIME,3, If(c==SEQ,4, If(c==TEXT,5, -1))))))
x,y,z = Consts('x y z', V)
same = lambda a,b: cls(a)==cls(b)
AX = [
 # python == : across classes False; within NUM by value; within class an equivalence
 ForAll([x,y], Implies(Not(same(x,y)), Not(neq(x,y)))),
 ForAll([x,y], Implies(And(cls(x)==NUM, cls(y)==NUM), neq(x,y) == (num(x)==num(y)))),
 ForAll([x,y], Implies(And(cls(x)==NONE, cls(y)==NONE), neq(x,y))),
 ForAll([x], neq(x,x)),
 ForAll([x,y], neq(x,y)==neq(y,x)),
 ForAll([x,y,z], Implies(And(neq(x,y),neq(y,z)), neq(x,z))),
 # native < within same class (non NUM, non NONE): strict total order compatible with neq
 ForAll([x,y], Implies(nlt(x,y), And(same(x,y), Not(neq(x,y)), Not(nlt(y,x))))),
 ForAll([x,y,z], Implies(And(nlt(x,y),nlt(y,z)), nlt(x,z))),
 ForAll([x,y,z], Implies(And(nlt(x,y),neq(y,z)), nlt(x,z))),
 ForAll([x,y,z], Implies(And(neq(x,y),nlt(y,z)), nlt(x,z))),
 ForAll([x,y], Implies(And(same(x,y), cls(x)!=NUM, cls(x)!=NONE), Or(nlt(x,y), neq(x,y), nlt(y,x)))),
]
def LT(a,b):
    # transcription of Comparable.__lt__ ladder (what the VC generator will produce from the AST)
    isnum = lambda v: cls(v)==NUM
    native_ok = Or(And(isnum(a), isnum(b)), And(same(a,b), Not(isnum(a))))   # else TypeError
    native = If(And(isnum(a),isnum(b)), num(a) < num(b), nlt(a,b))
    return If(cls(b)==NONE, False,
           If(cls(a)==NONE, True,
           If(And(isnum(a), Not(isnum(b))), True,
           If(And(Not(isnum(a)), isnum(b)), False,
           If(And(cls(a)==TEXT, cls(b)==BYTES), False,
           If(And(cls(a)==BYTES, cls(b)==TEXT), True,
           If(native_ok, native, rank(cls(a)) < rank(cls(b)))))))))
EQ = neq
a,b,c = Consts('a b c', V)
goals = {
 'irrefl': Not(LT(a,a)),
 'asym': Implies(LT(a,b), Not(LT(b,a))),
 'trans': Implies(And(LT(a,b),LT(b,c)), LT(a,c)),
 'total': Or(LT(a,b), EQ(a,b), LT(b,a)),
 'lt_not_eq': Implies(LT(a,b), Not(EQ(a,b))),
 'cong1': Implies(And(LT(a,b),EQ(b,c)), LT(a,c)),
 'cong2': Implies(And(EQ(a,b),LT(b,c)), LT(a,c)),
 'none_first': Implies(And(cls(a)==NONE, cls(b)!=NONE), LT(a,b)),
 'num_before_rest': Implies(And(cls(a)==NUM, cls(b)!=NUM, cls(b)!=NONE), LT(a,b)),
 'bytes_before_text': Implies(And(cls(a)==BYTES, cls(b)==TEXT), LT(a,b)),
}
for name,g in goals.items():
    s = Solver(); s.set('timeout',30000); s.add(AX); s.add(Not(g))
    t=time.time(); r=s.check(); print(name, r, '%.2fs'%(time.time()-t))
s=Solver(); s.add(AX); print('consistency', s.check())
