# Hand-made VCs for the group-level merge of iterjoin (feasibility experiment for DESIGN.md)
from z3 import *
import time
K = DeclareSort('K')
LT = Function('LT', K, K, BoolSort()); EQ = Function('EQ', K, K, BoolSort())
x,y,z = Consts('x y z', K)
ORD = [ForAll([x], EQ(x,x)), ForAll([x,y], EQ(x,y)==EQ(y,x)),
       ForAll([x,y,z], Implies(And(EQ(x,y),EQ(y,z)),EQ(x,z))),
       ForAll([x,y], Implies(LT(x,y), And(Not(EQ(x,y)), Not(LT(y,x))))),
       ForAll([x,y,z], Implies(And(LT(x,y),LT(y,z)),LT(x,z))),
       ForAll([x,y,z], Implies(And(LT(x,y),EQ(y,z)),LT(x,z))),
       ForAll([x,y,z], Implies(And(EQ(x,y),LT(y,z)),LT(x,z))),
       ForAll([x,y], Or(LT(x,y),EQ(x,y),LT(y,x)))]
GT = lambda a,b: Not(Or(LT(a,b), EQ(a,b)))     # Comparable.__gt__
lk = Array('lk', IntSort(), K); rk = Array('rk', IntSort(), K); nL, nR = Ints('nL nR')
a, b, a2 = Ints('a b a2')
ASC = [nL >= 0, nR >= 0,
       ForAll([a,a2], Implies(And(0<=a, a<a2, a2<nL), LT(lk[a], lk[a2]))),
       ForAll([a,a2], Implies(And(0<=a, a<a2, a2<nR), LT(rk[a], rk[a2])))]
lo, ro = Bools('lo ro')
def matchedL(al): return Exists([b], And(0<=b, b<nR, EQ(lk[al], rk[b])))
def matchedR(be): return Exists([a], And(0<=a, a<nL, EQ(lk[a], rk[be])))
# state
def mkstate(s):
    return dict(i=Int('i'+s), j=Int('j'+s), cL=Array('cL'+s, IntSort(), IntSort()), cR=Array('cR'+s, IntSort(), IntSort()))
def Handled(st, i, j):
    # all left groups < i and right groups < j have final counts; others zero
    return And(ForAll([a], Implies(And(0<=a, a<i), st['cL'][a] == If(Or(lo, matchedL(a)), 1, 0))),
               ForAll([a], Implies(And(i<=a, a<nL), st['cL'][a] == 0)),
               ForAll([b], Implies(And(0<=b, b<j), st['cR'][b] == If(Or(ro, matchedR(b)), 1, 0))),
               ForAll([b], Implies(And(j<=b, b<nR), st['cR'][b] == 0)))
def Inv(st):
    i, j = st['i'], st['j']
    return And(0<=i, i<nL, 0<=j, j<nR,
               ForAll([a], Implies(And(0<=a, a<i), LT(lk[a], rk[j]))),
               ForAll([b], Implies(And(0<=b, b<j), LT(rk[b], lk[i]))),
               Handled(st, i, j))
s0 = mkstate('0')
i, j, cL, cR = s0['i'], s0['j'], s0['cL'], s0['cR']
def bump(arr, idx): return Store(arr, idx, arr[idx]+1)
results = []
def prove(name, hyp, goal):
    s = Solver(); s.set('timeout', 60000); s.add(ORD); s.add(ASC); s.add(hyp); s.add(Not(goal))
    t = time.time(); r = s.check(); results.append((name, r)); print('%-28s %s %.2fs' % (name, r, time.time()-t))
# --- branch LT: emit (i,None) if lo ; local emission assertion: unmatched(i)
hyp = And(Inv(s0), LT(lk[i], rk[j]))
prove('LT: emitted is unmatched', hyp, Not(matchedL(i)))
s1 = dict(i=i+1, j=j, cL=If(lo, bump(cL,i), cL), cR=cR)
prove('LT: inv preserved', And(hyp, i+1 < nL), Inv(s1))
# exit A: left exhausted in LT branch: lkval stays lk[i] (stale), rkval = rk[j]; state handled (nL, j)
# tails: leftouter: if lkval > rkval -> emit hanging left grp: must NOT fire (else double emission)
prove('exitA: no spurious left hang', And(hyp, i+1 == nL), Not(GT(lk[i], rk[j])))
#         rightouter: if lkval < rkval: emit hanging right group j, then the rest j+1..
prove('exitA: right hang fires', And(hyp, i+1 == nL), LT(lk[i], rk[j]))
prove('exitA: right rest unmatched', And(hyp, i+1 == nL, j <= b, b < nR), Not(matchedR(b)))
# final state after tails: cL as s1, cR bumped for all b>=j if ro
cRf = Array('cRf', IntSort(), IntSort())
tailR = lambda cR0, frm: And(ForAll([b], Implies(And(frm<=b, b<nR), cRf[b] == cR0[b] + If(ro,1,0))),
                              ForAll([b], Implies(Not(And(frm<=b, b<nR)), cRf[b] == cR0[b])))
Post = lambda cLx, cRx: And(ForAll([a], Implies(And(0<=a,a<nL), cLx[a] == If(Or(lo, matchedL(a)),1,0))),
                            ForAll([b], Implies(And(0<=b,b<nR), cRx[b] == If(Or(ro, matchedR(b)),1,0))))
prove('exitA: post', And(hyp, i+1 == nL, tailR(cR, j)), Post(s1['cL'], cRf))
# --- branch GT
hyp = And(Inv(s0), Not(LT(lk[i], rk[j])), GT(lk[i], rk[j]))
prove('GT: emitted is unmatched', hyp, Not(matchedR(j)))
s2 = dict(i=i, j=j+1, cL=cL, cR=If(ro, bump(cR,j), cR))
prove('GT: inv preserved', And(hyp, j+1 < nR), Inv(s2))
cLf = Array('cLf', IntSort(), IntSort())
tailL = lambda cL0, frm: And(ForAll([a], Implies(And(frm<=a, a<nL), cLf[a] == cL0[a] + If(lo,1,0))),
                              ForAll([a], Implies(Not(And(frm<=a, a<nL)), cLf[a] == cL0[a])))
prove('exitB: left hang fires', And(hyp, j+1 == nR), GT(lk[i], rk[j]))
prove('exitB: no spurious right hang', And(hyp, j+1 == nR), Not(LT(lk[i], rk[j])))
prove('exitB: left rest unmatched', And(hyp, j+1 == nR, i <= a, a < nL), Not(matchedL(a)))
prove('exitB: post', And(hyp, j+1 == nR, tailL(cL, i)), Post(cLf, s2['cR']))
# --- branch EQ
hyp = And(Inv(s0), Not(LT(lk[i], rk[j])), Not(GT(lk[i], rk[j])))
prove('EQ: keys equal', hyp, EQ(lk[i], rk[j]))
s3 = dict(i=i+1, j=j+1, cL=bump(cL,i), cR=bump(cR,j))
prove('EQ: inv preserved', And(hyp, i+1 < nL, j+1 < nR), Inv(s3))
# exit C1: next(lgit) raises: lkval=lk[i] stale, rkval=rk[j] stale (equal) ; left done; right rest from j+1 (rgit not advanced past j)
prove('exitC1: no left hang', And(hyp, i+1 == nL), Not(GT(lk[i], rk[j])))
prove('exitC1: no right hang', And(hyp, i+1 == nL), Not(LT(lk[i], rk[j])))
prove('exitC1: right rest unmatched', And(hyp, i+1 == nL, j+1 <= b, b < nR), Not(matchedR(b)))
prove('exitC1: post', And(hyp, i+1 == nL, tailR(s3['cR'], j+1)), Post(s3['cL'], cRf))
# exit C2: next(lgit) ok -> lkval=lk[i+1], lrowgrp = group i+1 ; next(rgit) raises: rkval = rk[j] stale
prove('exitC2: left hang fires', And(hyp, i+1 < nL, j+1 == nR), GT(lk[i+1], rk[j]))
prove('exitC2: no right hang', And(hyp, i+1 < nL, j+1 == nR), Not(LT(lk[i+1], rk[j])))
prove('exitC2: left rest unmatched', And(hyp, i+1 < nL, j+1 == nR, i+1 <= a, a < nL), Not(matchedL(a)))
prove('exitC2: post', And(hyp, i+1 < nL, j+1 == nR, tailL(s3['cL'], i+1)), Post(cLf, s3['cR']))
# --- init: both nonempty -> Inv with i=j=0, counts zero
ci = dict(i=IntVal(0), j=IntVal(0), cL=Array('cLi', IntSort(), IntSort()), cR=Array('cRi', IntSort(), IntSort()))
zero = And(ForAll([a], ci['cL'][a] == 0), ForAll([b], ci['cR'][b] == 0))
prove('init: inv', And(nL > 0, nR > 0, zero), Inv(ci))
print('all unsat:', all(r == unsat for _, r in results))
# --- init exit with the code's sentinel: right side has no groups, next(rgit) raises, rkval stays Comparable(None)
NONE = Const('NONE', K)
noneax = ForAll([x], Or(EQ(NONE, x), LT(NONE, x)))          # None sorts first (C04)
s = Solver(); s.add(ORD); s.add(ASC); s.add(noneax); s.add(nL > 0, nR == 0)
s.add(Not(GT(lk[0], NONE)))   # obligation: the hanging first left group must be flushed
print('init exit (right empty) obligation GT(lk[0], sentinel):', 'FAILS, model lk[0]==None: ' + str(s.check()))
