import petl as etl, gc, os, tempfile, shutil, itertools
d = tempfile.mkdtemp(dir='/tmp')
def left(): gc.collect(); return sorted(os.listdir(d))
T = [['a']] + [[i] for i in (5,3,4,1,2)]
bad = []
for cache in (True, False):
    for k1 in range(0, 7):
        for k2 in range(0, 7):
            for order in ('view-first', 'iters-first'):
                t = etl.sort(T, buffersize=2, tempdir=d, cache=cache)
                a = iter(t); x = list(itertools.islice(a, k1)); b = iter(t); y = list(itertools.islice(b, k2))
                if order == 'view-first':
                    del t; gc.collect(); ra = list(a); rb = list(b)
                    full = [('a',),(1,),(2,),(3,),(4,),(5,)]
                    if x + ra != full or y + rb != full: bad.append(('rows', cache, k1, k2, x+ra, y+rb))
                    del a, b
                else:
                    del a, b; gc.collect(); r = list(t); del t
                if left(): bad.append(('leak', cache, k1, k2, order, left())); [os.unlink(os.path.join(d,f)) for f in os.listdir(d)]
print('bad', bad[:5], len(bad))
# source failing mid-way
class Boom(Exception): pass
class Src:
    def __init__(s, n): s.n = n
    def __iter__(s):
        yield ('a',)
        for i in range(s.n): yield (5 - i,)
        raise Boom()
for n in range(0, 6):
    t = etl.sort(Src(n), buffersize=2, tempdir=d)
    try: list(t)
    except Boom: pass
    del t
    print('fail at', n, left())
# fromdicts generator spill file
import petl.io.json as pj
g = ({'a': i} for i in range(3)); v = etl.fromdicts(g); it = iter(v); next(it); next(it); name = v._filecache.name; del it; del v; gc.collect(); print('spill exists after release:', os.path.exists(name))
shutil.rmtree(d)
