# Feasibility: petl.util.lookups.lookup loop invariant with a per-key counting function
from z3 import *
import time
Kk = DeclareSort('Key'); Vv = DeclareSort('Val')
n = Int('n'); key = Array('key', IntSort(), Kk); val = Array('val', IntSort(), Vv)   # getkey(row i), getvalue(row i)
C = Function('C', Kk, IntSort(), IntSort())      # C(k, m) = #{i<m : key[i]==k}
k = Const('k', Kk); i, j, m = Ints('i j m')
AX = [ForAll([k], C(k, 0) == 0),
      ForAll([k, i], Implies(And(0 <= i, i < n), C(k, i+1) == C(k, i) + If(key[i] == k, 1, 0)))]
MONO = ForAll([k, i, j], Implies(And(0 <= i, i <= j, j <= n), C(k, i) <= C(k, j)))
NONNEG = ForAll([k, i], Implies(And(0 <= i, i <= n), C(k, i) >= 0))
# dict model: dom: Key->Bool ; lst: Key -> (Array Int Val) ; ln: Key -> Int
ListS = ArraySort(IntSort(), Vv)
def st(s): return dict(dom=Array('dom'+s, Kk, BoolSort()), lst=Array('lst'+s, Kk, ListS), ln=Array('ln'+s, Kk, IntSort()))
def Inv(d, m):
    return And(0 <= m, m <= n,
               ForAll([k], d['dom'][k] == (C(k, m) > 0)),
               ForAll([k], Implies(d['dom'][k], d['ln'][k] == C(k, m))),
               ForAll([i], Implies(And(0 <= i, i < m), d['lst'][key[i]][C(key[i], i)] == val[i])))
d = st('0')
pre = And(Inv(d, m), m < n)
kk, vv = key[m], val[m]
# branch: k in dictionary -> l = d[k]; l.append(v); d[k] = l
l1 = Store(d['lst'][kk], d['ln'][kk], vv)
d_in = dict(dom=d['dom'], lst=Store(d['lst'], kk, l1), ln=Store(d['ln'], kk, d['ln'][kk] + 1))
# branch: not in -> d[k] = [v]
l2 = Store(d['lst'][kk], 0, vv)
d_out = dict(dom=Store(d['dom'], kk, True), lst=Store(d['lst'], kk, l2), ln=Store(d['ln'], kk, IntVal(1)))
def prove(name, hyp, goal, extra=()):
    s = Solver(); s.set('timeout', 60000); s.add(AX); s.add(MONO); s.add(NONNEG); s.add(n >= 0); s.add(*extra); s.add(hyp); s.add(Not(goal))
    t = time.time(); r = s.check(); print('%-22s %s %.2fs' % (name, r, time.time()-t))
prove('step in', And(pre, d['dom'][kk]), Inv(d_in, m+1))
prove('step notin', And(pre, Not(d['dom'][kk])), Inv(d_out, m+1))
# lemma proofs (induction steps)
s = Solver(); s.add(AX); s.add(0 <= i, i <= j, j < n, C(k, i) <= C(k, j)); s.add(Not(C(k, i) <= C(k, j+1))); print('mono step', s.check())
s = Solver(); s.add(AX); s.add(0 <= i, i < n, C(k, i) >= 0); s.add(Not(C(k, i+1) >= 0)); print('nonneg step', s.check())
