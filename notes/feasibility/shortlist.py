# Feasibility: one emission step of petl.transform.sorts._shortlistmergesorted (min version)
from z3 import *
import time
E = DeclareSort('E'); Q = DeclareSort('Q')
key = Function('key', E, Q)
LT = Function('LT', Q, Q, BoolSort()); EQ = Function('EQ', Q, Q, BoolSort())
x,y,z = Consts('x y z', Q)
ORD = [ForAll([x], EQ(x,x)), ForAll([x,y], EQ(x,y)==EQ(y,x)),
       ForAll([x,y,z], Implies(And(EQ(x,y),EQ(y,z)),EQ(x,z))),
       ForAll([x,y], Implies(LT(x,y), And(Not(EQ(x,y)), Not(LT(y,x))))),
       ForAll([x,y,z], Implies(And(LT(x,y),LT(y,z)),LT(x,z))),
       ForAll([x,y,z], Implies(And(LT(x,y),EQ(y,z)),LT(x,z))),
       ForAll([x,y,z], Implies(And(EQ(x,y),LT(y,z)),LT(x,z))),
       ForAll([x,y], Or(LT(x,y),EQ(x,y),LT(y,x)))]
I = IntSort()
seq = Array('seq', I, ArraySort(I, E)); ln = Array('ln', I, I); K = Int('K')
t, p, q, s, s2 = Ints('t p q s s2')
SORTED = ForAll([t,p,q], Implies(And(0<=t, t<K, 0<=p, p<q, q<ln[t]), Not(LT(key(seq[t][q]), key(seq[t][p])))))
def mk(sfx):
    return dict(m=Int('m'+sfx), orig=Array('orig'+sfx, I, I), slot=Array('slot'+sfx, I, I), pos=Array('pos'+sfx, I, I),
                sl=Array('sl'+sfx, I, E))
def live(S, t): return S['slot'][t] >= 0
def WF(S):
    return And(0 <= S['m'], S['m'] <= K,
      ForAll([s], Implies(And(0<=s, s<S['m']), And(0 <= S['orig'][s], S['orig'][s] < K, S['slot'][S['orig'][s]] == s))),
      ForAll([s,s2], Implies(And(0<=s, s<s2, s2<S['m']), S['orig'][s] < S['orig'][s2])),
      ForAll([t], Implies(And(0<=t, t<K), And(S['slot'][t] >= -1, S['slot'][t] < S['m'],
                                              Implies(S['slot'][t] >= 0, S['orig'][S['slot'][t]] == t)))),
      ForAll([t], Implies(And(0<=t, t<K, live(S,t)), And(1 <= S['pos'][t], S['pos'][t] <= ln[t],
                                                         S['sl'][S['slot'][t]] == seq[t][S['pos'][t]-1]))),
      ForAll([t], Implies(And(0<=t, t<K, Not(live(S,t))), S['pos'][t] == ln[t])))
def unread(S, t, q): return And(0<=t, t<K, live(S,t), q >= S['pos'][t]-1, q < ln[t])
def LE3(k1,t1,q1,k2,t2,q2): return Or(LT(k1,k2), And(EQ(k1,k2), Or(t1 < t2, And(t1 == t2, q1 < q2))))
lastk = Const('lastk', Q); lastt, lastq = Ints('lastt lastq'); has_last = Bool('has_last')
def INV(S, hl, lk, lt_, lq):
    return And(WF(S), Implies(hl, ForAll([t,q], Implies(unread(S,t,q), LE3(lk, lt_, lq, key(seq[t][q]), t, q)))))
S = mk('0'); ss = Int('ss')   # ss = slot chosen by min() == shortlist.index(nxt)
choose = And(0 <= ss, ss < S['m'],
             ForAll([s], Implies(And(0<=s, s<S['m']), Not(LT(key(S['sl'][s]), key(S['sl'][ss]))))),
             ForAll([s], Implies(And(0<=s, s<ss), LT(key(S['sl'][ss]), key(S['sl'][s])))))
ts = S['orig'][ss]; e = S['sl'][ss]; eq_ = S['pos'][ts]-1
pre = And(K >= 0, SORTED, INV(S, has_last, lastk, lastt, lastq), S['m'] > 0, choose)
def prove(name, hyp, goal):
    sv = Solver(); sv.set('timeout', 120000); sv.add(ORD); sv.add(hyp); sv.add(Not(goal))
    t0 = time.time(); r = sv.check(); print('%-26s %s %.2fs' % (name, r, time.time()-t0))
prove('A: output order', pre, Implies(has_last, LE3(lastk, lastt, lastq, key(e), ts, eq_)))
# replace case
S1 = dict(m=S['m'], orig=S['orig'], slot=S['slot'], pos=Store(S['pos'], ts, S['pos'][ts]+1),
          sl=Store(S['sl'], ss, seq[ts][S['pos'][ts]]))
prove('B: replace keeps INV', And(pre, S['pos'][ts] < ln[ts]), INV(S1, BoolVal(True), key(e), ts, eq_))
# delete case: del shortlist[ss]; del iterators[ss]
S2 = mk('2')
dele = And(S2['m'] == S['m']-1, S2['pos'] == S['pos'],
           ForAll([s], Implies(And(0<=s, s<ss), And(S2['orig'][s] == S['orig'][s], S2['sl'][s] == S['sl'][s]))),
           ForAll([s], Implies(And(ss<=s, s<S2['m']), And(S2['orig'][s] == S['orig'][s+1], S2['sl'][s] == S['sl'][s+1]))),
           ForAll([t], S2['slot'][t] == If(t == ts, -1, If(S['slot'][t] > ss, S['slot'][t]-1, S['slot'][t]))))
prove('C: delete keeps INV', And(pre, S['pos'][ts] == ln[ts], dele), INV(S2, BoolVal(True), key(e), ts, eq_))
# non-vacuity: hypotheses satisfiable
for name, hyp in [('pre', pre), ('pre+replace', And(pre, S['pos'][ts] < ln[ts], has_last)), ('pre+delete', And(pre, S['pos'][ts] == ln[ts], dele, has_last, S['m'] > 1))]:
    sv = Solver(); sv.set('timeout', 60000); sv.add(ORD); sv.add(hyp); print('sat-check', name, sv.check())
# canary: a wrong claim must be refuted (ties resolved to the LARGEST iterable index)
def GE3(k1,t1,q1,k2,t2,q2): return Or(LT(k1,k2), And(EQ(k1,k2), Or(t1 > t2, And(t1 == t2, q1 < q2))))
sv = Solver(); sv.set('timeout', 60000); sv.add(ORD); sv.add(pre, S['pos'][ts] < ln[ts])
sv.add(Not(Implies(True, ForAll([t,q], Implies(unread(S1,t,q), GE3(key(e), ts, eq_, key(seq[t][q]), t, q))))))
print('canary (wrong tie-break) refuted:', sv.check())
