import petl as etl
T = [['a'],[2],[1],[3]]
t = etl.sort(T)
C = iter(t)            # no-cache generator, not started
list(t)                # a full pass sets the memory cache
A = iter(t)            # served from memory cache
print(next(A))
print(next(C))         # first step of C clears the cache
try:
    print(list(A))
except Exception as e:
    print('A RAISES', type(e).__name__, e)
print(list(C))
# file cache variant
t = etl.sort(T, buffersize=2)
C = iter(t); list(t); A = iter(t); print(next(A)); print(next(C))
try: print(list(A))
except Exception as e: print('A RAISES', type(e).__name__, e)
print(list(C))
# hash join cached lookup: dispatch at iter() time, lookup fresh; fine
