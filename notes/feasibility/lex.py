from z3 import *
import time
E = DeclareSort('E')
lt = Function('lt', E, E, BoolSort())
eq = Function('eq', E, E, BoolSort())
x,y,z = Consts('x y z', E)
# element-level hypotheses (IH): strict weak order whose equivalence is eq, total (trichotomy)
IH = [
 ForAll([x], eq(x,x)),
 ForAll([x,y], eq(x,y) == eq(y,x)),
 ForAll([x,y,z], Implies(And(eq(x,y), eq(y,z)), eq(x,z))),
 ForAll([x,y], Implies(lt(x,y), Not(eq(x,y)))),
 ForAll([x,y], Implies(lt(x,y), Not(lt(y,x)))),
 ForAll([x,y,z], Implies(And(lt(x,y), lt(y,z)), lt(x,z))),
 ForAll([x,y,z], Implies(And(lt(x,y), eq(y,z)), lt(x,z))),
 ForAll([x,y,z], Implies(And(eq(x,y), lt(y,z)), lt(x,z))),
 ForAll([x,y], Or(lt(x,y), eq(x,y), lt(y,x))),
]
A = ArraySort(IntSort(), E)
def mkseq(n):
    return Const(n, A), Int(n+'_len')
i = Int('i')
def first_diff(a, al, b, bl, k):
    # k is the first index where a,b differ (or min len)
    m = If(al < bl, al, bl)
    return And(0 <= k, k <= m, ForAll([i], Implies(And(0 <= i, i < k), eq(a[i], b[i]))),
               Or(k == m, Not(eq(a[k], b[k]))))
def LT(a, al, b, bl, k):
    m = If(al < bl, al, bl)
    return If(k == m, al < bl, lt(a[k], b[k]))
def EQ(a, al, b, bl, k):
    m = If(al < bl, al, bl)
    return And(k == m, al == bl)
a, al = mkseq('a'); b, bl = mkseq('b'); c, cl = mkseq('c')
kab, kbc, kac, kba = Ints('kab kbc kac kba')
base = IH + [al >= 0, bl >= 0, cl >= 0,
        first_diff(a,al,b,bl,kab), first_diff(b,bl,c,cl,kbc), first_diff(a,al,c,cl,kac), first_diff(b,bl,a,al,kba)]
goals = {
 'trans': Implies(And(LT(a,al,b,bl,kab), LT(b,bl,c,cl,kbc)), LT(a,al,c,cl,kac)),
 'asym': Implies(LT(a,al,b,bl,kab), Not(LT(b,bl,a,al,kba))),
 'irrefl_eq': Implies(EQ(a,al,b,bl,kab), Not(LT(a,al,b,bl,kab))),
 'total': Or(LT(a,al,b,bl,kab), EQ(a,al,b,bl,kab), LT(b,bl,a,al,kba)),
 'eq_sym': EQ(a,al,b,bl,kab) == EQ(b,bl,a,al,kba),
 'eq_trans': Implies(And(EQ(a,al,b,bl,kab), EQ(b,bl,c,cl,kbc)), EQ(a,al,c,cl,kac)),
 'lt_eq_cong': Implies(And(LT(a,al,b,bl,kab), EQ(b,bl,c,cl,kbc)), LT(a,al,c,cl,kac)),
 'eq_lt_cong': Implies(And(EQ(a,al,b,bl,kab), LT(b,bl,c,cl,kbc)), LT(a,al,c,cl,kac)),
 'first_diff_unique': kab == kba,
}
for name, g in goals.items():
    s = Solver(); s.set('timeout', 30000)
    s.add(base); s.add(Not(g))
    t=time.time(); r = s.check(); print(name, r, '%.2fs'%(time.time()-t))
s = Solver(); s.add(base); print('consistency', s.check())
