"""Spike (round 0, throw-away): stateless-body rule on the real petl.transform.basics.iterstack.
Sequences are (Array Int V, len) pairs; the inner 'for row in it' body is executed once for an arbitrary
row of an arbitrary source and the delta contract (property C12 for stack: trimmed, padded, never dropped)
is checked; frame (C03) = no mutation of a Source object; pulls (C02) = no extra next() in the body."""
import ast, sys, time
from z3 import *
SRC = open('/repo/petl/transform/basics.py').read()
MUT = sys.argv[1] if len(sys.argv) > 1 else None
if MUT == 'no_pad_guard':  SRC = SRC.replace("if pad and len(outrow) < n:", "if pad and len(outrow) <= n - 2:")
if MUT == 'trim_off_by_one': SRC = SRC.replace("outrow = outrow[:n]", "outrow = outrow[:n+1]")
if MUT == 'inplace': SRC = SRC.replace("            outrow = tuple(row)\n            if trim:", "            outrow = row\n            outrow.append(missing)\n            if trim:")
fn = next(n for n in ast.parse(SRC).body if isinstance(n, ast.FunctionDef) and n.name == 'iterstack')

V = DeclareSort('V'); I = IntSort(); ARR = ArraySort(I, V)
fresh_n = [0]
def fresh(prefix, sort):
    fresh_n[0] += 1; return Const('%s!%d' % (prefix, fresh_n[0]), sort)
class Seq:       # immutable or mutable python sequence of cells
    def __init__(self, arr, ln, origin, kind): self.arr, self.len, self.origin, self.kind = arr, ln, origin, kind
class Table:     # symbolic source table: rows(i) -> (cells, len)
    def __init__(self, name):
        self.cells = Array(name + '_cells', I, ARR); self.rlen = Array(name + '_rlen', I, I); self.n = Int(name + '_n'); self.name = name
    def row(self, i): return Seq(self.cells[i], self.rlen[i], 'Source', 'list')
class Iter:
    def __init__(self, table): self.table, self.pos, self.pulls = table, IntVal(0), 0
class StopIter(Exception): pass
class FrameViolation(Exception): pass

class Exec:
    def __init__(self): self.facts = []; self.yields = []; self.obligations = []
    def assume(self, f): self.facts.append(f)
    # --- expressions (only what iterstack needs)
    def ev(self, node, env):
        if isinstance(node, ast.Constant): return node.value
        if isinstance(node, ast.Name): return env[node.id]
        if isinstance(node, ast.Tuple): 
            elts = [self.ev(e, env) for e in node.elts]; arr = fresh('tup', ARR)
            for k, e in enumerate(elts): self.assume(arr[k] == e)
            return Seq(arr, IntVal(len(elts)), 'Fresh', 'tuple')
        if isinstance(node, ast.Call):
            f = node.func.id if isinstance(node.func, ast.Name) else None
            args = [self.ev(a, env) for a in node.args]
            if f == 'tuple' or f == 'list':
                s = args[0]
                if s.kind == 'tuple' and f == 'tuple': return s
                return Seq(s.arr, s.len, 'Fresh', f)
            if f == 'len': return args[0].len
            if isinstance(node.func, ast.Attribute):       # method call on a sequence: mutation?
                target = self.ev(node.func.value, env)
                if node.func.attr in ('append', 'extend', 'insert', 'pop', 'sort', 'remove'):
                    if target.origin != 'Fresh': raise FrameViolation('%s.%s() on a %s object' % (ast.unparse(node.func.value), node.func.attr, target.origin))
                    if node.func.attr == 'append':
                        a = self.ev(node.args[0], env); target.arr = Store(target.arr, target.len, a); target.len = target.len + 1; return None
            raise NotImplementedError(ast.dump(node))
        if isinstance(node, ast.Subscript) and isinstance(node.slice, ast.Slice) and node.slice.lower is None:
            s = self.ev(node.value, env); hi = self.ev(node.slice.upper, env)
            return Seq(s.arr, If(hi < s.len, If(hi < 0, 0, hi), s.len), 'Fresh', s.kind)      # hi >= 0 here (len of header)
        if isinstance(node, ast.BinOp) and isinstance(node.op, ast.Sub): return self.ev(node.left, env) - self.ev(node.right, env)
        if isinstance(node, ast.BinOp) and isinstance(node.op, ast.Add) and not isinstance(self.ev(node.left, env), Seq): return self.ev(node.left, env) + self.ev(node.right, env)
        if isinstance(node, ast.BinOp) and isinstance(node.op, ast.Mult):      # (x,) * k
            s = self.ev(node.left, env); k = self.ev(node.right, env); assert isinstance(s.len, IntNumRef) and s.len.as_long() == 1
            arr = fresh('rep', ARR); j = Int('j'); kk = If(k > 0, k, 0)
            self.assume(ForAll([j], Implies(And(0 <= j, j < kk), arr[j] == s.arr[0])))
            return Seq(arr, kk, 'Fresh', 'tuple')
        if isinstance(node, ast.Compare) and len(node.ops) == 1:
            a, b = self.ev(node.left, env), self.ev(node.comparators[0], env)
            return {ast.Lt: a < b, ast.LtE: a <= b, ast.Gt: a > b}[type(node.ops[0])]
        if isinstance(node, ast.BoolOp) and isinstance(node.op, ast.And):
            return And([self.tobool(self.ev(v, env)) for v in node.values])
        raise NotImplementedError(ast.dump(node))
    def tobool(self, v): return BoolVal(v) if isinstance(v, bool) else v
    def concat(self, a, b):
        arr = fresh('cat', ARR); j = Int('j')
        self.assume(ForAll([j], Implies(And(0 <= j, j < a.len), arr[j] == a.arr[j])))
        self.assume(ForAll([j], Implies(And(a.len <= j, j < a.len + b.len), arr[j] == b.arr[j - a.len])))
        return Seq(arr, a.len + b.len, 'Fresh', a.kind)
    # --- statements of a loop body: returns list of (path facts, yields) -- path splitting on ifs
    def body(self, stmts, env, pc, ys):
        if not stmts: return [(pc, ys)]
        s, rest = stmts[0], stmts[1:]
        if isinstance(s, ast.Assign):
            env = dict(env); env[s.targets[0].id] = self.ev(s.value, env); return self.body(rest, env, pc, ys)
        if isinstance(s, ast.AugAssign) and isinstance(s.op, ast.Add):
            env = dict(env); cur = env[s.target.id]; rhs = self.ev(s.value, env)
            if isinstance(cur, Seq):
                if cur.kind == 'list' and cur.origin != 'Fresh': raise FrameViolation('+= on a %s list' % cur.origin)
                env[s.target.id] = self.concat(cur, rhs)
            else: env[s.target.id] = cur + rhs
            return self.body(rest, env, pc, ys)
        if isinstance(s, ast.Expr) and isinstance(s.value, ast.Yield):
            v = self.ev(s.value.value, env)
            if isinstance(v, Seq) and v.origin == 'Fresh': v.origin = 'Yielded'
            return self.body(rest, env, pc, ys + [v])
        if isinstance(s, ast.Expr): self.ev(s.value, env); return self.body(rest, env, pc, ys)
        if isinstance(s, ast.If):
            c = self.tobool(self.ev(s.test, env))
            return self.body(s.body + rest, env, pc + [c], ys) + self.body(s.orelse + rest, env, pc + [Not(c)], ys)
        raise NotImplementedError(ast.dump(s))

# ---- drive: prologue executed concretely over k = 2 symbolic tables; inner loop by the stateless rule
ex = Exec(); T = [Table('S0'), Table('S1')]
for t in T: ex.assume(t.n >= 1)                                 # requires: every table has a header row
missing = Const('missing', V); trim, pad = Bools('trim pad')
hdr = T[0].row(0); n = hdr.len; ex.assume(n >= 0)
for t in T: ex.assume(ForAll([Int('r')], t.rlen[Int('r')] >= 0))
outer = next(s for s in fn.body if isinstance(s, ast.For) and isinstance(s.body[0], ast.For))   # 'for it in its: for row in it:'
inner = outer.body[0]
results = []; t0 = time.time()
for ti, t in enumerate(T):
    k = Int('k'); ex_k = [k >= 1, k < t.n]                       # arbitrary data row k of table ti
    row = t.row(k)
    env = {'row': row, 'n': n, 'trim': trim, 'pad': pad, 'missing': missing}
    try: paths = ex.body(inner.body, env, [], [])
    except FrameViolation as e:
        print('FRAME VIOLATION (C03):', e); results.append(False); continue
    for pc, ys in paths:
        j = Int('jj')
        hyp = ex.facts + ex_k + pc + [trim, pad]               # the C12 clause is for the default trim=True, pad=True
        goal = And(len(ys) == 1, ys[0].len == n, ForAll([j], Implies(And(0 <= j, j < n), ys[0].arr[j] == If(j < row.len, row.arr[j], missing)))) if len(ys) == 1 else BoolVal(False)
        s = Solver(); s.set('timeout', 20000); s.add(hyp); s.add(Not(goal)); r = s.check()
        if r == unknown:                                       # finite-shape countermodel search
            for nn in range(0, 4):
                for rl in range(0, 5):
                    s2 = Solver(); s2.set('timeout', 5000); s2.add(hyp); s2.add(n == nn, row.len == rl); s2.add(Not(goal))
                    if s2.check() == sat: r = 'sat at shape n=%d len(row)=%d' % (nn, rl); break
                if r != unknown: break
        results.append(r == unsat); print('table %d path %-40s -> %s' % (ti, [str(simplify(c)) for c in pc][:2], r))
print('delta contract of iterstack inner loop:', 'PROVED' if all(results) else 'FAILED', '(%d obligations, %.2fs)' % (len(results), time.time() - t0))
