import petl as etl, traceback
from petl.comparison import Comparable
def t(name, f):
    try:
        r = f()
        print(name, '->', r)
    except BaseException as e:
        print(name, 'RAISES', type(e).__name__, e)

E = [['id','x']]
L = [['id','x'],[None,'a'],[1,'b']]
R = [['id','y'],[1,'z']]
t('leftjoin None-key vs empty right', lambda: list(etl.leftjoin(L, [['id','y']], key='id')))
t('antijoin None-key vs empty right', lambda: list(etl.antijoin(L, [['id','y']], key='id')))
t('outerjoin None-key vs empty right', lambda: list(etl.outerjoin(L, [['id','y']], key='id')))
t('rightjoin empty left, None key right', lambda: list(etl.rightjoin([['id','y']], L, key='id')))
t('lookupjoin empty right', lambda: list(etl.lookupjoin(L, [['id','y']], key='id')))
t('lookupjoin empty left', lambda: list(etl.lookupjoin([['id','y']], L, key='id')))
t('lookupjoin none key', lambda: list(etl.lookupjoin(L, R, key='id')))
t('lookupjoin ok', lambda: list(etl.lookupjoin([['id','x'],[1,'b'],[2,'c']], R, key='id')))
t('distinct count empty', lambda: list(etl.distinct(E, count='n')))
t('filldown empty', lambda: list(etl.filldown(E)))
t('selectusingcontext empty', lambda: list(etl.selectusingcontext(E, lambda p,c,n: True)))
t('issorted empty', lambda: etl.issorted(E))
t('issorted mixed', lambda: etl.issorted(etl.sort([['a'],['x'],[None],[1]])))
t('issorted mixed key', lambda: etl.issorted(etl.sort([['a'],['x'],[None],[1]]), key='a'))
t('selectlt list cell vs tuple', lambda: list(etl.selectlt([['a'],[[1,3]],[[1,1]],[(1,3)]], 'a', (1,2))))
t('groupselectmin presorted', lambda: list(etl.groupselectmin([['k','v'],[1,5],[1,2],[2,9],[2,1]], 'k', 'v', presorted=True)))
t('groupselectmin default', lambda: list(etl.groupselectmin([['k','v'],[1,5],[1,2],[2,9],[2,1]], 'k', 'v')))
# cache interleave
c = etl.cache([['a'],[1],[2],[3]])
a = iter(c); print(next(a)); b = iter(c); print(next(b)); print(next(b)); print(next(a)); print(list(a), list(b)); print('fresh', list(c))
# randomtable interleave
r = etl.randomtable(2, 4, seed=1)
solo = list(r)
a = iter(r); x=[next(a), next(a), next(a)]; b = iter(r); y=[next(b), next(b)]; x += list(a); y += list(b)
print('random A ok', x == solo, 'B ok', y == solo)
