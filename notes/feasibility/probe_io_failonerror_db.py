import petl as etl, io, os, csv, tempfile, sqlite3
from petl.io.sources import MemorySource
def t(name, f):
    try:
        r = f(); print(name, '->', r)
    except BaseException as e:
        print(name, 'RAISES', type(e).__name__, e)
d = tempfile.mkdtemp(dir='/tmp')
T = [['a','b'],['x,y','q"r'],['l1\nl2','c\rd'],['\x00n','é'],[None,1],['',' sp ']]
def rt(t_, **kw):
    m = MemorySource(); etl.tocsv(t_, m, encoding='utf-8', **kw); return list(etl.fromcsv(MemorySource(m.getvalue()), encoding='utf-8', **kw))
exp = [tuple('' if c is None else str(c) for c in r) for r in T]
t('csv rt default', lambda: rt(T) == exp)
t('csv rt quote all', lambda: rt(T, quoting=csv.QUOTE_ALL) == exp)
t('csv rt delim ;', lambda: rt(T, delimiter=';') == exp)
t('csv rt quotechar', lambda: rt(T, quotechar="'") == exp)
t('csv ragged+empty rows', lambda: rt([['a','b'],[],['1'],['1','2','3']]))
# tee vs to bytes
m1 = MemorySource(); etl.tocsv(T, m1, encoding='utf-8'); m2 = MemorySource(); list(etl.teecsv(T, m2, encoding='utf-8')); print('teecsv bytes equal', m1.getvalue()==m2.getvalue())
m1 = MemorySource(); etl.totext(T, m1, encoding='utf-8', template='{a}|{b}\n', prologue='P\n', epilogue='E\n'); m2 = MemorySource(); list(etl.teetext(T, m2, encoding='utf-8', template='{a}|{b}\n', prologue='P\n', epilogue='E\n')); print('teetext bytes equal', m1.getvalue()==m2.getvalue())
H=[['a','b'],[1,'x'],[2]]
m1 = MemorySource(); etl.tohtml(H, m1, encoding='utf-8'); m2 = MemorySource(); list(etl.teehtml(H, m2, encoding='utf-8')); print('teehtml bytes equal', m1.getvalue()==m2.getvalue())
E=[['a','b']]
m1 = MemorySource(); etl.tohtml(E, m1, encoding='utf-8'); m2 = MemorySource(); list(etl.teehtml(E, m2, encoding='utf-8')); print('teehtml hdr-only bytes equal', m1.getvalue()==m2.getvalue())
m1 = MemorySource(); etl.totext(E, m1, encoding='utf-8', template='{a}\n', prologue='P', epilogue='E'); m2 = MemorySource(); list(etl.teetext(E, m2, encoding='utf-8', template='{a}\n', prologue='P', epilogue='E')); print('teetext hdr-only bytes equal', m1.getvalue()==m2.getvalue())
m1 = MemorySource(); etl.topickle(H, m1); m2 = MemorySource(); list(etl.teepickle(H, m2)); print('teepickle bytes equal', m1.getvalue()==m2.getvalue())
# tee pickle with MemorySource: teepickle calls write_source_from_arg at iter
# gz append
p = os.path.join(d, 'x.csv.gz'); etl.tocsv(T[:3], p, encoding='utf-8'); etl.appendcsv([['a','b']]+T[3:], p, encoding='utf-8'); print('gz to+append', list(etl.fromcsv(p, encoding='utf-8')) == exp)
p = os.path.join(d, 'x.csv.bz2'); etl.tocsv(T[:3], p, encoding='utf-8'); etl.appendcsv([['a','b']]+T[3:], p, encoding='utf-8'); print('bz2 to+append', list(etl.fromcsv(p, encoding='utf-8')) == exp)
# json
J=[['a','b'],[1,'x'],[None,'é\n'],[1.5,[1,2]]]
p = os.path.join(d,'x.json'); etl.tojson(J, p); print('json rt', list(etl.fromjson(p)) == [tuple(r) for r in J])
etl.tojson(J, p, lines=True); print('jsonl rt', list(etl.fromjson(p, lines=True)) == [tuple(r) for r in J])
etl.tojsonarrays(J, p); print('jsonarrays', open(p).read())
# failonerror
def conv(v):
    if v == 'bad': raise ValueError('x')
    return v.upper()
F=[['a'],['p'],['bad'],['q']]
for fe in (False, True, 'inline'):
    t('convert fe=%r'%fe, lambda: list(etl.convert(F,'a',conv, failonerror=fe, errorvalue='E')))
def gen(r):
    yield [r.a]
    if r.a == 'bad': raise ValueError('g')
    yield [r.a+'2']
for fe in (False, True, 'inline'):
    t('rowmapmany fe=%r'%fe, lambda: list(etl.rowmapmany(F, gen, ['x'], failonerror=fe)))
for fe in (False, True, 'inline'):
    t('rowmap fe=%r'%fe, lambda: list(etl.rowmap(F, lambda r: [conv(r.a)], ['x'], failonerror=fe)))
# db all-or-nothing
db = os.path.join(d,'t.db'); c = sqlite3.connect(db); c.execute('create table t (a,b)'); c.execute("insert into t values (0,'old')"); c.commit(); c.close()
class Boom(Exception): pass
def src(n):
    yield ('a','b')
    for i in range(n): yield (i,'new')
    raise Boom()
class Tb:
    def __init__(s,n): s.n=n
    def __iter__(s): return src(s.n)
for handle in ('name','conn','cursor','mkcurs'):
    for n in (0,2):
        conn = sqlite3.connect(db)
        h = {'name': db, 'conn': conn, 'cursor': conn.cursor(), 'mkcurs': (lambda: conn.cursor())}[handle]
        try: etl.todb(Tb(n), h, 't')
        except Boom: pass
        fresh = sqlite3.connect(db); print('todb fail', handle, n, fresh.execute('select * from t').fetchall()); fresh.close(); conn.close()
import shutil; shutil.rmtree(d)
