"""Spike (round 0, throw-away): derive LT/EQ formulas for petl.comparison.Comparable straight from the
AST in /repo and prove the order laws; then mutate the source text and watch an obligation fail.
Path-splitting symbolic execution of a loop-free method; values are z3 terms of sort V with class tags."""
import ast, sys, itertools, time
from z3 import *

SRC = open(sys.argv[1] if len(sys.argv) > 1 else '/repo/petl/comparison.py').read()
MUT = sys.argv[2] if len(sys.argv) > 2 else None
if MUT == 'swap_none':      # None no longer first: swap the two None rungs' results
    SRC = SRC.replace("        if other is None:\n            return False\n        if obj is None:\n            return True",
                      "        if other is None:\n            return True\n        if obj is None:\n            return False")
elif MUT == 'num_after':    # numbers after everything else
    SRC = SRC.replace("                and not isinstance(other, numeric_types):\n            return True",
                      "                and not isinstance(other, numeric_types):\n            return False")
elif MUT == 'typename':     # fall back compares the names the wrong way round
    SRC = SRC.replace("return _typestr(obj) < _typestr(other)", "return _typestr(obj) > _typestr(other)")
elif MUT == 'ge':           # __ge__ forgets equality
    SRC = SRC.replace("    def __ge__(self, other):\n        return not (self < other)", "    def __ge__(self, other):\n        return self > other")
tree = ast.parse(SRC)
cls = next(n for n in tree.body if isinstance(n, ast.ClassDef) and n.name == 'Comparable')
meth = {n.name: n for n in cls.body if isinstance(n, ast.FunctionDef)}
funcs = {n.name: n for n in tree.body if isinstance(n, ast.FunctionDef)}

# ---- value model (T4): classes, numeric value, native order inside a class, python ==
Cls, CL = EnumSort('Cls', ['NONE', 'NUM', 'BYTES', 'TEXT', 'DATE', 'DATETIME', 'TIME', 'SEQ'])
NONE, NUM, BYTES, TEXT, DATE, DATETIME, TIME, SEQ = CL
V = DeclareSort('V'); clsf = Function('cls', V, Cls); num = Function('num', V, RealSort())
nlt = Function('nlt', V, V, BoolSort()); neq = Function('neq', V, V, BoolSort())
TYPENAME = {NONE: 'NoneType', NUM: 'int', BYTES: 'bytes', TEXT: 'str', DATE: 'date', DATETIME: 'datetime', TIME: 'time', SEQ: 'tuple'}
TYPESETS = {'numeric_types': [NUM], 'text_type': [TEXT], 'binary_type': [BYTES], 'Comparable': []}
x, y, z = Consts('x y z', V); same = lambda a, b: clsf(a) == clsf(b)
AX = [ForAll([x, y], Implies(Not(same(x, y)), Not(neq(x, y)))),
      ForAll([x, y], Implies(And(clsf(x) == NUM, clsf(y) == NUM), neq(x, y) == (num(x) == num(y)))),
      ForAll([x, y], Implies(And(clsf(x) == NONE, clsf(y) == NONE), neq(x, y))),
      ForAll([x], neq(x, x)), ForAll([x, y], neq(x, y) == neq(y, x)),
      ForAll([x, y, z], Implies(And(neq(x, y), neq(y, z)), neq(x, z))),
      ForAll([x, y], Implies(nlt(x, y), And(same(x, y), Not(neq(x, y)), Not(nlt(y, x))))),
      ForAll([x, y, z], Implies(And(nlt(x, y), nlt(y, z)), nlt(x, z))),
      ForAll([x, y, z], Implies(And(nlt(x, y), neq(y, z)), nlt(x, z))),
      ForAll([x, y, z], Implies(And(neq(x, y), nlt(y, z)), nlt(x, z))),
      ForAll([x, y], Implies(And(same(x, y), clsf(x) != NUM, clsf(x) != NONE), Or(nlt(x, y), neq(x, y), nlt(y, x))))]

class Raise(Exception):
    def __init__(self, exc): self.exc = exc
class Obj:               # a Comparable instance whose .obj is the z3 value v
    def __init__(self, v): self.v = v

# ---- path-splitting evaluator: returns list of (path_condition, python-or-z3 value | Raise)
def ev(node, env, pc):
    """yield (pc, value) pairs; value may be z3 BoolRef, z3 V term, Obj, python const, or Raise instance"""
    if isinstance(node, ast.Constant): yield pc, node.value; return
    if isinstance(node, ast.Name): yield pc, env[node.id]; return
    if isinstance(node, ast.Attribute) and isinstance(node.value, ast.Name) and isinstance(env.get(node.value.id), Obj):
        assert node.attr == 'obj'; yield pc, env[node.value.id].v; return
    if isinstance(node, ast.BoolOp):
        def rec(vals, pc_):
            if not vals: yield pc_, (isinstance(node.op, ast.And)); return
            for p1, v in ev(vals[0], env, pc_):
                b = truth(v)
                if isinstance(node.op, ast.And):
                    if len(vals) == 1: yield p1, b
                    else:
                        yield p1 + [Not(b)], False
                        yield from rec(vals[1:], p1 + [b])
                else:
                    if len(vals) == 1: yield p1, b
                    else:
                        yield p1 + [b], True
                        yield from rec(vals[1:], p1 + [Not(b)])
        yield from rec(node.values, pc); return
    if isinstance(node, ast.UnaryOp) and isinstance(node.op, ast.Not):
        for p1, v in ev(node.operand, env, pc): yield p1, Not(truth(v))
        return
    if isinstance(node, ast.Compare) and len(node.ops) == 1:
        op = node.ops[0]
        for p1, a in ev(node.left, env, pc):
            for p2, b in ev(node.comparators[0], env, p1):
                if isinstance(op, ast.Is): yield p2, is_none(a) if b is None else None; continue
                if isinstance(a, Obj) or isinstance(b, Obj):        # dispatch to the class's own methods (T3)
                    name = {ast.Lt: '__lt__', ast.Eq: '__eq__', ast.Gt: '__gt__', ast.LtE: '__le__', ast.GtE: '__ge__'}[type(op)]
                    assert isinstance(a, Obj)
                    yield from call_method(name, a, b, p2); continue
                if isinstance(a, str) and isinstance(b, str):
                    yield p2, {ast.Lt: a < b, ast.Gt: a > b, ast.Eq: a == b}[type(op)]; continue
                # native comparison of two raw values (T4)
                bothnum = And(clsf(a) == NUM, clsf(b) == NUM)
                if isinstance(op, ast.Eq): yield p2, neq(a, b); continue
                ok = Or(bothnum, And(same(a, b), clsf(a) != NUM, clsf(a) != NONE))
                yield p2 + [Not(ok)], Raise('TypeError')
                res = {ast.Lt: If(bothnum, num(a) < num(b), nlt(a, b)), ast.Gt: If(bothnum, num(a) > num(b), nlt(b, a))}[type(op)]
                yield p2 + [ok], res
        return
    if isinstance(node, ast.Call) and isinstance(node.func, ast.Name):
        fn = node.func.id
        if fn == 'isinstance':
            for p1, a in ev(node.args[0], env, pc):
                tn = node.args[1].id
                if tn == 'Comparable': yield p1, isinstance(a, Obj)
                elif isinstance(a, Obj): yield p1, False
                else: yield p1, Or([clsf(a) == c for c in TYPESETS[tn]]) if TYPESETS[tn] else False
            return
        if fn == 'type':       # type(x).__name__ handled by caller
            raise NotImplementedError
        if fn in funcs:        # module-level helper, inlined: _typestr
            for p1, a in ev(node.args[0], env, pc):
                for c in CL:   # case split on the class so that type names stay concrete strings
                    yield from run(funcs[fn].body, {funcs[fn].args.args[0].arg: a, '__cls__': c}, p1 + [clsf(a) == c])
            return
    if isinstance(node, ast.Attribute) and node.attr == '__name__':    # type(x).__name__
        yield pc, TYPENAME[env['__cls__']]; return
    raise NotImplementedError(ast.dump(node))

def is_none(a): return clsf(a) == NONE if not isinstance(a, Obj) else False
def truth(v):
    if isinstance(v, bool): return BoolVal(v)
    return v

def run(stmts, env, pc):
    """execute statements; yield (pc, returned value or Raise) for every path that returns/raises"""
    if not stmts: yield pc, None; return
    s, rest = stmts[0], stmts[1:]
    if isinstance(s, ast.Expr): yield from run(rest, env, pc); return       # docstring / comments
    if isinstance(s, ast.Assign):
        for p1, v in ev(s.value, env, pc):
            e2 = dict(env); e2[s.targets[0].id] = v
            yield from run(rest, e2, p1)
        return
    if isinstance(s, ast.Return):
        for p1, v in ev(s.value, env, pc): yield p1, v
        return
    if isinstance(s, ast.If):
        for p1, c in ev(s.test, env, pc):
            c = truth(c)
            if not is_false(simplify(c)): yield from run(s.body + rest, env, p1 + [c])
            if not is_true(simplify(c)): yield from run(s.orelse + rest, env, p1 + [Not(c)])
        return
    if isinstance(s, ast.Try):
        for p1, v in run(s.body, env, pc):
            if isinstance(v, Raise) and any(h.type.id == v.exc for h in s.handlers):
                h = next(h for h in s.handlers if h.type.id == v.exc)
                yield from run(h.body + rest, env, p1)
            else: yield p1, v
        return
    raise NotImplementedError(ast.dump(s))

def call_method(name, selfobj, other, pc):
    f = meth[name]; a = [p.arg for p in f.args.args]
    yield from run(f.body, {a[0]: selfobj, a[1]: other}, pc)

def formula(name, a, b):
    """closed form of Comparable(a).<name>(Comparable(b)) as a z3 Bool, plus the 'raises' condition"""
    paths = list(call_method(name, Obj(a), Obj(b), []))
    val = BoolVal(False); raises = []
    for pc, v in paths:
        if isinstance(v, Raise): raises.append(And(pc) if pc else BoolVal(True))
        else: val = If(And(pc) if pc else BoolVal(True), truth(v), val)
    return simplify(val), (Or(raises) if raises else BoolVal(False)), len(paths)

a, b, c = Consts('a b c', V)
LTab, r1, n1 = formula('__lt__', a, b)
print('paths through __lt__:', n1)
LT = lambda p, q: substitute(LTab, (a, p), (b, q))
EQf, _, _ = formula('__eq__', a, b); EQ = lambda p, q: substitute(EQf, (a, p), (b, q))
LEf, _, _ = formula('__le__', a, b); GTf, _, _ = formula('__gt__', a, b); GEf, _, _ = formula('__ge__', a, b)
p, q, r = Consts('p q r', V)
goals = {
 'no exception escapes __lt__': Not(substitute(r1, (a, p), (b, q))),
 'irreflexive': Not(LT(p, p)), 'asymmetric': Implies(LT(p, q), Not(LT(q, p))),
 'transitive': Implies(And(LT(p, q), LT(q, r)), LT(p, r)),
 'total': Or(LT(p, q), EQ(p, q), LT(q, p)), 'lt excludes eq': Implies(LT(p, q), Not(EQ(p, q))),
 'lt respects eq (right)': Implies(And(LT(p, q), EQ(q, r)), LT(p, r)),
 'lt respects eq (left)': Implies(And(EQ(p, q), LT(q, r)), LT(p, r)),
 'None first': Implies(And(clsf(p) == NONE, clsf(q) != NONE), LT(p, q)),
 'numbers before the rest': Implies(And(clsf(p) == NUM, clsf(q) != NUM, clsf(q) != NONE), LT(p, q)),
 'bytes before text': Implies(And(clsf(p) == BYTES, clsf(q) == TEXT), LT(p, q)),
 '__le__ = lt or eq': substitute(LEf, (a, p), (b, q)) == Or(LT(p, q), EQ(p, q)),
 '__gt__ = not(lt or eq)': substitute(GTf, (a, p), (b, q)) == Not(Or(LT(p, q), EQ(p, q))),
 '__ge__ = not lt': substitute(GEf, (a, p), (b, q)) == Not(LT(p, q)),
}
bad = 0; t0 = time.time()
for name, g in goals.items():
    s = Solver(); s.set('timeout', 20000); s.add(AX); s.add(Not(g)); res = s.check()
    if res != unsat:
        bad += 1; m = s.model() if res == sat else None
        print('FAILED', name, res, ({str(v): str(m.eval(clsf(v))) for v in (p, q, r)} if m else ''))
print('%d obligations, %d failed, %.2fs' % (len(goals), bad, time.time() - t0))
