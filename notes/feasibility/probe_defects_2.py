import petl as etl
from petl.util.materialise import cache
c = cache([['a'],[1],[2],[3]])
a = iter(c); x=[next(a)]; b = iter(c); y=[next(b)]; y.append(next(b)); x.append(next(a)); x+=list(a); y+=list(b); print(x, y); print('fresh', list(c))
r = etl.randomtable(2, 4, seed=1)
solo = list(r)
a = iter(r); x=[next(a), next(a), next(a)]; b = iter(r); y=[next(b), next(b)]; x += list(a); y += list(b)
print('random A ok', x == solo, 'B ok', y == solo)
d = etl.dummytable(4, seed=1)
solo = list(d)
a = iter(d); x=[next(a), next(a), next(a)]; b = iter(d); y=[next(b), next(b)]; x += list(a); y += list(b)
print('dummy A ok', x == solo, 'B ok', y == solo)
