from z3 import *
import time
R = DeclareSort('Row')
S = Array('S', IntSort(), R); n = Int('n')
eqk = Function('eqk', IntSort(), IntSort(), BoolSort())   # key(S[i]) == key(S[j]) as evaluated by the code
C = Function('C', IntSort(), IntSort())
i = Int('i')
def keep(i): return Or(And(i > 0, eqk(i-1, i)), And(i+1 < n, eqk(i, i+1)))
AX = [C(0) == 0, ForAll([i], Implies(And(0 <= i, i < n), C(i+1) == C(i) + If(keep(i), 1, 0)))]
def Inv(m, out, outlen, py):
    return And(1 <= m, m <= n,
               outlen == 1 + C(m-1) + If(py, 1, 0),
               ForAll([i], Implies(And(0 <= i, i < m-1, keep(i)), out[1 + C(i)] == S[i])),
               Implies(py, out[1 + C(m-1)] == S[m-1]),
               py == And(m >= 2, eqk(m-2, m-1)))
m = Int('m'); out = Array('out', IntSort(), R); outlen = Int('outlen'); py = Bool('py')
# loop body on row S[m], m < n
pre = And(Inv(m, out, outlen, py), m < n)
# branch eq
eq = eqk(m-1, m)
out1 = If(py, out, Store(out, outlen, S[m-1])); len1 = If(py, outlen, outlen+1)
out_eq = Store(out1, len1, S[m]); len_eq = len1 + 1
post_eq = Inv(m+1, out_eq, len_eq, BoolVal(True))
post_ne = Inv(m+1, out, outlen, BoolVal(False))
for name, vc in [('step_eq', Implies(And(pre, eq), post_eq)), ('step_ne', Implies(And(pre, Not(eq)), post_ne)),
                 ('exit', Implies(And(Inv(m,out,outlen,py), m == n),
                                  And(outlen == 1 + C(n), ForAll([i], Implies(And(0<=i, i<n, keep(i)), out[1+C(i)] == S[i])))))]:
    s = Solver(); s.set('timeout', 30000); s.add(AX); s.add(n >= 1); s.add(Not(vc))
    t = time.time(); r = s.check(); print(name, r, '%.2fs' % (time.time()-t))
j = Int('j')
MONO = ForAll([i, j], Implies(And(0 <= i, i <= j, j <= n), C(i) <= C(j)))
for name, vc in [('step_eq+mono', Implies(And(pre, eq), post_eq))]:
    s = Solver(); s.set('timeout', 30000); s.add(AX); s.add(MONO); s.add(n >= 1); s.add(Not(vc))
    t = time.time(); r = s.check(); print(name, r, '%.2fs' % (time.time()-t))
# prove MONO by induction on j: base j==i trivial; step: C(i)<=C(j) => C(i)<=C(j+1)
ii, jj = Ints('ii jj')
s = Solver(); s.add(AX); s.add(0 <= ii, ii <= jj, jj < n, C(ii) <= C(jj)); s.add(Not(C(ii) <= C(jj+1)))
print('mono step', s.check())
