exec(open('shortlist.py').read().split('# non-vacuity')[0])
# non-vacuity at a fixed small shape: hypotheses of VC 'C' (delete) satisfiable?
sv = Solver(); sv.set('timeout', 60000); sv.add(ORD)
sv.add(K == 2, ln[0] == 1, ln[1] == 2, S['m'] == 2, S['orig'][0] == 0, S['orig'][1] == 1, has_last)
sv.add(pre, S['pos'][ts] == ln[ts], dele)
t0=time.time(); print('vacuity shape check:', sv.check(), '%.2fs'%(time.time()-t0))
